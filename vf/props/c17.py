"""C17 — the CLI never mutates in check mode / on refusal, and mutating commands are all-or-nothing."""
import ast
import json

from vf import core
from vf.core import cbool, clist, ctup
from vf.translate import core as T
from vf.harness import cliworld as cw

TRUSTED = [
    "Coq 8.16.1 kernel + VM; no native_compute",
    "translator vf/translate: cli.cli.check_then_update as an event program (calls to func / click.confirm / ctx.exit), cli.options.check_if_from_stdin as a boolean function",
    "sqlite transaction atomicity incl. transactional DDL; faults injected at Database.execute_sql; click option parsing (commands are invoked through click's own CliRunner); "
    "the classification of SQL verbs into reads and writes",
]
RULE = ("24 mutating subcommands x random flag combinations and arguments (valid and invalid names, file lists incl. stdin and empty) x random indexes x confirmation answers; "
        "full index dump before/after; for commands that changed the index: an OperationalError at every statement index k on an identically rebuilt index; the observed statement log "
        "is grouped into commit units and checked in Coq; non-trivial = the invocation passed argument parsing; distinct by (command, args, index)")

WRITE_VERBS = {"INSERT", "UPDATE", "DELETE", "CREATE", "DROP", "ALTER", "REPLACE"}


def gen(ctx):
    cli = T.parse(core.REPO / "alpenhorn/cli/cli.py")
    opt = T.parse(core.REPO / "alpenhorn/cli/options.py")

    def func_event(call):
        a0 = call.args[0]
        if isinstance(a0, ast.Constant) and a0.value is False:
            return "CallCheck"
        if isinstance(a0, ast.Constant) and a0.value is True:
            return "CallUpdate"
        T.bail(call, "func called with a non-literal mode")

    d = [
        T.event_program(cli, "check_then_update", "g_check_then_update", ["do_check", "do_update", "confirmed"], {"func": func_event},
                        oracle={"click.confirm": ("confirmed", "AskConfirm")}),
        T.bool_function(opt, "check_if_from_stdin", {"path": "str", "check": "bool", "force": "bool"}, "g_check_if_from_stdin", ["path", "check", "force"]),
    ]
    # every check-confirm-update command passes (not force, not check) and reassigns check from check_if_from_stdin
    for path, q in (("node/clean.py", "clean"), ("node/verify.py", "verify"), ("group/sync.py", "sync"), ("node/sync.py", "sync")):
        tree = T.parse(core.REPO / "alpenhorn/cli" / path)
        fn = T.find_func(tree, q)
        calls = [x for x in ast.walk(fn) if isinstance(x, ast.Call) and ast.unparse(x.func) == "check_then_update"]
        if len(calls) != 1 or [ast.unparse(a) for a in calls[0].args[:2]] != ["not force", "not check"]:
            raise T.Untranslatable(f"UNTRANSLATABLE: {path}: check_then_update is not called as (not force, not check, ...)")
        asg = [ast.unparse(x) for x in ast.walk(fn) if isinstance(x, ast.Assign) and ast.unparse(x.targets[0]) == "check"]
        if asg != ["check = check_if_from_stdin(file_list, check, force)"]:
            raise T.Untranslatable(f"UNTRANSLATABLE: {path}: check is not derived by check_if_from_stdin: {asg}")
    # `file state`: which requests are refused (the ready bit is for a healthy copy only; --ready excludes --unready)
    st = T.find_func(T.parse(core.REPO / "alpenhorn/cli/file/state.py"), "_update_state")
    refusals = [(ast.unparse(x.test), ast.unparse(x.body[0])[:60]) for x in ast.walk(st) if isinstance(x, ast.If) and x.body and isinstance(x.body[0], ast.Raise)]
    want = [("new_state != 'healthy'", "raise click.ClickException(\"can't set ready bit: file not pr"), ("not copy or copy.has_file != 'Y'", "raise click.ClickException(\"can't set ready bit: file not pr")]
    if refusals != want:
        raise T.Untranslatable(f"UNTRANSLATABLE: the refusals of `file state` changed: {refusals}")
    return {"Gen_cli": T.HEADER.replace("Open Scope Z_scope.", "From Alp Require Import Model.Cli.\nOpen Scope Z_scope.") + "\n".join(d) + "\n"}


def proofs(ctx):
    try:
        files = gen(ctx)
    except T.Untranslatable as e:
        ctx.broke("translator", "cli/cli.py check_then_update / check_if_from_stdin", str(e))
        files = None
    if files:
        core.check_tie(ctx, files, ["Tie_C17"])
    core.check_property_file(ctx, "C17.v")


CCU = {"node clean", "node verify", "group sync", "node sync"}


def units_of(log):
    """group the statement log into commit units by transaction depth"""
    units, cur = [], None
    for (_, verb, _, depth) in log:
        wr = verb in WRITE_VERBS
        if depth == 0:
            if cur is not None:
                units.append(cur)
                cur = None
            units.append([wr])
        else:
            if cur is None:
                cur = []
            cur.append(wr)
    if cur is not None:
        units.append(cur)
    return units


def run_once(spec, base, cmdname, args, input_, fail_at=None):
    sdb = cw.build(spec, base)
    before = cw.full_dump()
    with cw.w.SqlFault(sdb, fail_at=fail_at) as sf:
        code, out, exc = cw.invoke(cmdname, args, input_)
    after = cw.full_dump()
    return before, after, code, out, exc, sf.log


def explore(ctx):
    base = ctx.tmp()
    rng = ctx.rng
    ecases, ucases, ukeep = [], [], []
    n = 750 if ctx.quick() else 10000
    stats = {"parsed": 0, "changed": 0, "usage_error": 0, "lookup_error": 0, "check": 0, "declined": 0, "stdin": 0, "faults": 0}
    names = sorted(cw.COMMANDS)
    bycmd = {c: 0 for c in names}
    ctx.cov["index_changing_invocations_by_command"] = bycmd
    # bulk updates: more rows than fit in one modest batch (the whole update must still be one commit unit)
    big = {"groups": ["G1", "G2"], "nodes": [{"name": "N1", "group": "G1", "stype": "A", "host": "h1", "active": True}, {"name": "N2", "group": "G2", "stype": "A", "host": "h1", "active": True}],
           "acqs": ["acq1"], "files": [{"acq": "acq1", "name": f"f{j:03d}", "size": 10, "reg_days_ago": 1} for j in range(230)],
           "copies": [{"file": j, "node": "N1", "has": "Y", "wants": "Y"} for j in range(230)], "reqs": [], "rules": [], "ireqs": []}
    fixed = [("group sync", big, ["G2", "N1", "--force"]), ("node sync", big, ["N1", "G2", "--force"]), ("node clean", big, ["N1", "--force", "--archive-ok"]),
             ("node verify", big, ["N1", "--force", "--all"])]
    for i in range(n + len(fixed)):
        if i < len(fixed):
            cmdname, spec, args = fixed[i]
            extra, answer = {}, None
        else:
            cmdname = names[i % len(names)] if i < 3 * len(names) else (rng.choice(sorted(CCU)) if rng.random() < 0.6 else rng.choice(names))
            spec = cw.gen_spec(rng)
            args, extra = cw.gen_invocation(rng, cmdname, spec, base)
            answer = rng.choice(["y\n", "n\n", "n\n", "y\n", None])
        stdin_list = extra.get("file_list") == "-"
        inp = answer
        if stdin_list:
            paths = [f"{f['acq']}/{f['name']}" for f in spec["files"]]
            inp = "".join(p + "\n" for p in rng.sample(paths, min(2, len(paths))))
        before, after, code, out, exc, log = run_once(spec, base, cmdname, args, inp)
        ctx.count("invocation")
        rp = {"family": "cli", "command": cmdname, "args": args, "input": inp, "spec": spec}
        changed = before != after
        if exc is not None:
            # an uncaught exception is a rejection too (exit code 1 with a traceback): the index must be unchanged
            stats["crashed"] = stats.get("crashed", 0) + 1
            if changed:
                ctx.fail("C17:mutated-in-crash", f"alpenhorn {cmdname} {' '.join(args)} raised {type(exc).__name__}: {exc} after changing the index", rp)
            continue
        if code == 2:
            stats["usage_error"] += 1
        elif code != 0:
            stats["lookup_error"] += 1
        else:
            stats["parsed"] += 1
            ctx.distinct_add((cmdname, tuple(args), json.dumps(spec, sort_keys=True)))
        if changed:
            stats["changed"] += 1
            bycmd[cmdname] = bycmd.get(cmdname, 0) + 1
        check_flag = any(a in ("--check", "-c") for a in args)
        force = "--force" in args
        prompted = "Continue?" in out
        declined = prompted and (answer is None or answer.startswith("n")) and not stdin_list
        if stdin_list and prompted:
            declined = True  # stdin is the file list: whatever click.confirm read was not a deliberate 'y'
        mode = None
        if code != 0:
            mode = "rejected (exit code %d)" % code
        elif check_flag:
            mode = "--check"
            stats["check"] += 1
        elif stdin_list and not force:
            mode = "file list from stdin without --force"
            stats["stdin"] += 1
        elif declined:
            mode = "declined at the prompt"
            stats["declined"] += 1
        if mode and code == 0 and cmdname in CCU and exc is None:
            # potency: would the same command have changed anything had it been allowed to update?
            fargs = [a for a in args if a not in ("--check", "-c", "--force")] + ["--force"]
            finp = None
            if stdin_list:
                fl = base / f"stdin{i}.txt"
                fl.write_text(inp or "")
                fargs = [a if a != "--file-list=-" else f"--file-list={fl}" for a in fargs]
            b3, a3, c3, o3, e3, l3 = run_once(spec, base, cmdname, fargs, finp)
            if c3 == 0 and b3 != a3:
                stats["nonupdate_modes_potent"] = stats.get("nonupdate_modes_potent", 0) + 1
        if mode and changed:
            diff = {k: (before[k], after[k]) for k in before if before[k] != after[k]}
            ctx.fail("C17:mutated-in-" + mode.split()[0], f"alpenhorn {cmdname} {' '.join(args)} ({mode}) changed the index: {json.dumps(diff)[:300]}", rp)
        if cmdname in CCU and code == 0 and not stdin_list:
            conf = prompted and answer is not None and answer.startswith("y")
            # was the update phase run?  (it prints one of these lines, and only it writes)
            updated = any(v in WRITE_VERBS for (_, v, _, _) in log)
            ran_to_prompt_or_end = prompted or force or check_flag
            if ran_to_prompt_or_end and ("Updated" in out or "Added" in out or "Cancelled" in out or not changed):
                if changed or prompted or check_flag:
                    ecases.append(ctup(cbool(False), cbool(check_flag), cbool(force), cbool(conf), cbool(updated)))
        # statement-log shape and fault atomicity for commands that change the index
        if code == 0 and changed:
            units = units_of(log)
            ucases.append(clist([clist([cbool(b) for b in u], "bool") for u in units], "(list bool)"))
            ukeep.append(rp)
            nstmt = len(log)
            ks = range(1, nstmt + 1) if (ctx.quick() and nstmt <= 12) or not ctx.quick() else sorted(set(rng.sample(range(1, nstmt + 1), 8)))
            for k in ks:
                b2, a2, c2, o2, e2, l2 = run_once(spec, base, cmdname, args, inp, fail_at=k)
                stats["faults"] += 1
                ctx.count("fault")
                if a2 != before and a2 != after:
                    diff = {t: (before[t], a2[t]) for t in before if before[t] != a2[t]}
                    ctx.fail("C17:half-applied", f"alpenhorn {cmdname} {' '.join(args)} with a database error at statement {k}: index is neither the old nor the new one: {json.dumps(diff)[:300]}",
                             {**rp, "fault_at": k})
        if i in (5, 40):
            ctx.sample({"command": cmdname, "args": args, "exit_code": code, "changed_index": changed, "statements": [(v, d) for (_, v, _, d) in log][:12]})
    # requests the commands document / implement as errors: they must be refused (non-zero exit) and leave the index unchanged
    must_refuse = []
    st_spec = {"groups": ["G1"], "nodes": [{"name": "N1", "group": "G1", "stype": "A", "host": "h1", "active": True}], "acqs": ["acq1"],
               "files": [{"acq": "acq1", "name": f"f{j}", "size": 10, "reg_days_ago": 1} for j in range(3)],
               "copies": [{"file": 0, "node": "N1", "has": "Y", "wants": "Y"}, {"file": 1, "node": "N1", "has": "Y", "wants": "N"}], "reqs": [], "rules": [], "ireqs": []}
    for f_ in ("acq1/f0", "acq1/f1", "acq1/f2"):
        for st_ in ("suspect", "Corrupt", "missing", "ABSENT"):
            must_refuse.append(("file state", [f_, "N1", f"--set={st_}", "--ready"]))
        must_refuse.append(("file state", [f_, "N1", "--ready", "--unready"]))
        must_refuse.append(("file state", [f_, "N1", "--set=bogus"]))
    must_refuse.append(("file state", ["acq1/f2", "N1", "--ready"]))  # no copy at all
    # numeric options on and beyond their documented bounds, with --force so that nothing but the refusal stands between the command and the index
    for sz in ("0", "0.0", "-1", "-0.5"):
        for extra in ([], ["--now"], ["--archive-ok"]):
            must_refuse.append(("node clean", ["N1", f"--size={sz}", "--force"] + extra))
    for d in ("0", "-3"):
        must_refuse.append(("node clean", ["N1", f"--days={d}", "--force"]))
    for opt in ("--max-total=0", "--max-total=-5", "--auto-verify=-1", "--min-avail=-0.5"):
        must_refuse.append(("node modify", ["N1", opt]))
        must_refuse.append(("node create", ["N9", "--group=G1", opt]))
    must_refuse += [("node sync", ["N1", "--force"]), ("node sync", ["N1", "G1", "--all", "--force"]), ("group sync", ["G1", "--force"]), ("group sync", ["G1", "N1", "--all", "--force"]),
                    ("file sync", ["acq1/f0", "--to=G1", "--force"]), ("file sync", ["acq1/f0", "--from=N1", "--force"]), ("file import", ["/abs/path", "N1"]), ("file modify", ["acq1/f0"]),
                    ("file create", ["f9", "acq1"]), ("file create", ["f9", "acq1", "--md5=" + "0" * 32])]
    for cmdname, args in must_refuse:
        before, after, code, out, exc, log = run_once(st_spec, base, cmdname, args, None)
        ctx.count("must-refuse")
        rp = {"family": "cli", "command": cmdname, "args": args, "input": None, "spec": st_spec}
        if code == 0 and exc is None:
            ctx.fail("C17:usage-error-accepted", f"alpenhorn {cmdname} {' '.join(args)} is a usage error (ready bit for a copy that is not healthy, contradictory or unknown options, a number outside its documented range, a missing argument) but exited 0"
                     + ("" if before == after else " and changed the index"), rp)
        elif before != after:
            ctx.fail("C17:mutated-in-rejected", f"alpenhorn {cmdname} {' '.join(args)} was rejected (exit {code}) after changing the index", rp)
    ctx.cov["cli_stats"] = stats
    # db init: fault at every statement of an empty database
    explore_db_init(ctx)
    if ecases:
        bad = core.run_cases(ctx, "events", "Corr.C17", "ecase", "echeck", ecases, shard=1000, extra_imports=("Model.Cli",))
        for i in bad[:3]:
            ctx.broke("correspondence", f"check_then_update: model and implementation differ on (dash, check, force, confirmed, updated) = {ecases[i]}")
    if ucases:
        bad = core.run_cases(ctx, "units", "Corr.C17", "ucase", "ucheck", ucases, shard=500, extra_imports=("Model.Cli",))
        for i in bad[:3]:
            ctx.broke("correspondence", f"command {ukeep[i]['command']} {ukeep[i]['args']} writes in more than one commit unit: {ucases[i][:200]}")
            ctx.fail("C17:several-commit-units", f"alpenhorn {ukeep[i]['command']} {' '.join(ukeep[i]['args'])} writes in more than one commit unit (autocommitted statements / atomic blocks)", ukeep[i])


def explore_db_init(ctx):
    import peewee as pw
    from alpenhorn.cli.db.init import init
    from alpenhorn import db
    from alpenhorn.common import config, extensions
    from click.testing import CliRunner

    def fresh():
        sdb = pw.SqliteDatabase(":memory:")
        config.config = config.merge_dict_tree(config._default_config.copy(), {"base": {"hostname": "h1"}})
        extensions._db_ext = {"name": "verif", "database": {"connect": lambda config: sdb, "reentrant": False}}
        db.connect()
        return sdb

    sdb = fresh()
    with cw.w.SqlFault(sdb) as sf:
        r = CliRunner().invoke(init, [])
    n = len(sf.log)
    full = sorted(sdb.get_tables())
    units = units_of(sf.log)
    ok_versions = db.schema_version() if full else None
    for k in range(1, n + 1):
        sdb = fresh()
        with cw.w.SqlFault(sdb, fail_at=k):
            CliRunner().invoke(init, [])
        tables = sorted(sdb.get_tables())
        ctx.count("db-init-fault")
        ctx.distinct_add(("dbinit", k))
        vers = 0
        if tables == full:
            vers = db.schema_version()
        if not (tables == [] or (tables == full and vers == db.current_version)):
            ctx.fail("C17:db-init-partial", f"db init with a database error at statement {k} of {n} leaves tables {tables[:4]}... version {vers} (neither empty nor initialised)",
                     {"family": "db-init", "fault_at": k})
    ctx.sample({"db_init": {"statements": n, "commit_units_with_writes": sum(1 for u in units if any(u))}})
    cw.w._current = None


def search(ctx):
    explore(ctx)


def replay(ctx, rp):
    r = rp["replay"]
    if r.get("family") == "cli":
        before, after, code, out, exc, log = run_once(r["spec"], ctx.tmp(), r["command"], r["args"], r.get("input"), r.get("fault_at"))
        print("exit", code, "exception", exc)
        print(out)
        print("changed tables:", [k for k in before if before[k] != after[k]])
        return 0 if before == after else 1
    print(r)
    return 2
