"""A scripted Lustre-HSM file system behind alpenhorn.common.util.run_command: one residency state per path, evolving over
time, with failures and time-outs injectable at any call.  The stand-in prints what lfs(1) prints."""
from __future__ import annotations

import pathlib

RESIDENT = ("unarchived", "restored")
STATES = ("unarchived", "restored", "restoring", "released")
EXTRA_WORDS = ["", "", "", " dirty", " lost", " norelease", " noarchive"]


def state_line(path, st, extra=""):
    if st == "unarchived":
        body = "(0x00000000)" if not extra else f"(0x00000001) exists{extra}"
        return f"{path}: {body}\n"
    if st == "restored":
        return f"{path}: (0x00000009) exists archived{extra}, archive_id:2\n"
    return f"{path}: (0x0000000d) released exists archived{extra}, archive_id:2\n"


def action_line(path, st):
    if st == "restoring":
        return f"{path}: RESTORE running extent(0x0 0x0 0xffffffffffffffff)\n"
    return f"{path}: NOOP\n"


class FakeLustre:
    def __init__(self, rng=None):
        self.rng = rng
        self.state = {}    # absolute path -> state; absent = no such file
        self.extra = {}    # absolute path -> extra flag words
        self.calls = []    # (sub-command, path, fault, state before)
        self.faults = []   # consumed one per call: "ok" | "fail" | "timeout" | "timeout-done" (took effect, answer lost)
        self.fault_rate = 0.0
        self.quota_kib = (10 ** 9, 0)  # (limit, used)
        self.restore_requests = {}
        self.on_call = None

    def next_fault(self):
        if self.faults:
            return self.faults.pop(0)
        if self.rng is not None and self.fault_rate and self.rng.random() < self.fault_rate:
            return self.rng.choice(["fail", "timeout", "timeout-done"])
        return "ok"

    def run_command(self, cmd, timeout=None, **kw):
        sub, args = cmd[1], cmd[2:]
        fault = self.next_fault()
        if sub == "quota":
            self.calls.append(("quota", args[-1], fault, None))
            if fault.startswith("timeout"):
                return (None, "", "")
            if fault == "fail":
                return (1, "", "lfs quota: failed")
            limit, used = self.quota_kib
            return (0, f"{args[-1]}\n        {used}       0 {limit}       -       1       0       0       -\n", "")
        path = args[-1]
        st = self.state.get(path)
        self.calls.append((sub, path, fault, st))
        if self.on_call:
            self.on_call(sub, path, fault, st)
        if fault == "timeout":
            return (None, "", "")
        if fault == "fail":
            return (1, "", f"lfs {sub}: cannot do that to '{path}': Input/output error")
        if st is None:
            return (2, "", f"lfs {sub}: cannot get HSM state for '{path}': No such file or directory")
        out = (0, "", "")
        if sub == "hsm_state":
            out = (0, state_line(path, st, self.extra.get(path, "")), "")
        elif sub == "hsm_action":
            out = (0, action_line(path, st), "")
        elif sub == "hsm_restore":
            self.restore_requests[path] = self.restore_requests.get(path, 0) + 1
            if st == "released":
                self.state[path] = "restoring"
        elif sub == "hsm_release":
            if st == "restored":
                self.state[path] = "released"
            elif st == "unarchived":
                out = (1, "", f"lfs hsm_release: cannot release '{path}': Device or resource busy")
        else:
            out = (1, "", f"lfs: {sub} is not understood by the stand-in")
        if fault == "timeout-done":
            return (None, "", "")
        return out

    def tick(self, p_done=0.7):
        """time passes: running restores may complete"""
        for p, st in list(self.state.items()):
            if st == "restoring" and (self.rng is None or self.rng.random() < p_done):
                self.state[p] = "restored"

    def install(self):
        from alpenhorn.common import util

        self._orig = util.run_command
        util.run_command = self.run_command
        return self

    def remove(self):
        from alpenhorn.common import util

        util.run_command = self._orig


def hsm_node(w, base, name, group, root_name="hsm", headroom_kib=0, restore_wait=5, ncheck=100, **kw):
    """an active LustreHSM node whose root is base/root_name (any bytes allowed in root_name)"""
    import json

    root = pathlib.Path(base, root_name)
    root.mkdir(parents=True, exist_ok=True)
    cfg = {"quota_id": "grp", "quota_type": "group", "headroom": headroom_kib, "lfs": "true", "restore_wait": restore_wait, "release_check_count": ncheck}
    return w.mknode(None, name, group, root=str(root), io_class="LustreHSM", io_config=json.dumps(cfg), marker=False, **kw)
