From Coq Require Import List NArith Bool Arith.
From Alp Require Import Base.Str Base.Types Model.Idle.
Import ListNotations.
Local Open Scope N_scope.
Lemma group_idle_iff size g nodes : group_idle size g nodes = true <->
  size g = 0 /\ exists ns, nodes = Some ns /\ forall n, In n ns -> size n = 0.
Proof.
  unfold group_idle. destruct (N.eqb_spec (size g) 0) as [E|E]; cbn [negb].
  - destruct nodes as [ns|].
    + rewrite forallb_forall. split.
      * intros H. split; [exact E|]. exists ns. split; [reflexivity|]. intros n Hn. apply N.eqb_eq. exact (H n Hn).
      * intros (_ & ns' & Heq & H). injection Heq as <-. intros n Hn. apply N.eqb_eq. exact (H n Hn).
    + split; [discriminate|]. intros (_ & ns & Heq & _). discriminate.
  - split; [discriminate|]. intros (H & _). contradiction.
Qed.
Lemma group_not_idle_witness size g ns : group_idle size g (Some ns) = false -> size g <> 0 \/ exists n, In n ns /\ size n <> 0.
Proof.
  unfold group_idle. destruct (N.eqb_spec (size g) 0) as [E|E]; cbn [negb]; [|intros _; left; exact E].
  intros H. right. induction ns as [|n ns IH]; [discriminate|]. cbn [forallb] in H. apply andb_false_iff in H as [H|H].
  - exists n. split; [left; reflexivity|]. unfold node_idle in H. apply N.eqb_neq. exact H.
  - destruct (IH H) as (m & Hm & Hs). exists m. split; [right; exact Hm | exact Hs].
Qed.
