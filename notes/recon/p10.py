"""C09 feasibility: crash at the k-th interposed call (SQL statement or mutating FS call) of a pull /
   import / delete iteration, then restart to fixpoint and compare with the uncrashed end state."""
from common import *
import os, hashlib, shutil, sys, builtins
from alpenhorn.daemon import update
from alpenhorn.scheduler import FairMultiFIFOQueue, pool, global_abort
import alpenhorn.io.default as dflt
class Crash(BaseException): pass
class OneShot(pool.EmptyPool):
    def check(self): global_abort.set()
class Q(FairMultiFIFOQueue):
    def get(self, timeout=None): return super().get(timeout=0.01)
def iterate(q):
    global_abort.clear(); update.update_loop(q, OneShot(), False); global_abort.clear()

class Interposer:
    FS = ["unlink","rename","replace","link","mkdir","rmdir","symlink"]
    def __init__(self, sdb): self.sdb=sdb; self.n=0; self.k=None; self.crashed=False; self.log=[]; self.orig={}
    def tick(self, what):
        if self.crashed: raise Crash()
        self.n += 1; self.log.append(what)
        if self.k is not None and self.n == self.k:
            self.crashed = True; raise Crash()
    def install(self):
        for name in self.FS:
            o = getattr(os, name); self.orig[name]=o
            def mk(o, name):
                def w(*a, **kw):
                    self.tick(("fs", name, str(a[0])[-30:])); return o(*a, **kw)
                return w
            setattr(os, name, mk(o, name))
        oo = os.open; self.orig["open"]=oo
        def wopen(path, flags, *a, **kw):
            if flags & (os.O_WRONLY|os.O_RDWR|os.O_CREAT): self.tick(("fs","open_w",str(path)[-30:]))
            return oo(path, flags, *a, **kw)
        os.open = wopen
        ex = self.sdb.execute_sql
        def wex(sql, params=None, *a, **kw):
            verb = sql.split()[0]
            if verb != "SELECT": self.tick(("sql", verb, sql.split()[2 if verb!="UPDATE" else 1].strip('"')))
            elif self.crashed: raise Crash()
            return ex(sql, params, *a, **kw)
        self.sdb.execute_sql = wex
    def remove(self):
        for name,o in self.orig.items(): setattr(os, name, o)
        del self.sdb.execute_sql

def world(kind):
    tmp, sdb = setup("h1"); dflt._reserved_bytes.clear()
    os.environ["PATH"] = "/nonexistent"      # internal copy / hardlink only
    g1 = StorageGroup.create(name="g1"); g2 = StorageGroup.create(name="g2"); g3 = StorageGroup.create(name="g3")
    a = mknode(tmp,"a",g1,stype="F"); b = mknode(tmp,"b",g2,stype="A"); c = mknode(tmp,"c",g3,stype="A")
    data=b"payload-bytes"; md5=hashlib.md5(data).hexdigest()
    (tmp/"a"/"acq").mkdir(); (tmp/"a"/"acq"/"f").write_bytes(data)
    if kind == "import":
        ArchiveFileImportRequest.create(node=a, path="acq/f", register=True)
        StorageTransferAction.create(node_from=a, group_to=g2, autosync=True)
    else:
        acq = ArchiveAcq.create(name="acq"); f = ArchiveFile.create(acq=acq,name="f",size_b=len(data),md5sum=md5)
        ArchiveFileCopy.create(file=f,node=a,has_file="Y",wants_file="Y")
        if kind == "pull":
            ArchiveFileCopyRequest.create(file=f,node_from=a,group_to=g2)
            StorageTransferAction.create(node_from=a, group_to=g2, autoclean=True)
        if kind == "delete":
            for n in (b,c):
                (tmp/n.name/"acq").mkdir(); (tmp/n.name/"acq"/"f").write_bytes(data)
                ArchiveFileCopy.create(file=f,node=n,has_file="Y",wants_file="Y")
            ArchiveFileCopy.update(wants_file="N").where(ArchiveFileCopy.node==a).execute()
    return tmp, sdb
def snapshot(tmp):
    idx = {"copies": sorted((c.file.name,c.node.name,c.has_file,c.wants_file) for c in ArchiveFileCopy.select()),
           "reqs": sorted((r.file.name,r.node_from.name,r.group_to.name,bool(r.completed),bool(r.cancelled)) for r in ArchiveFileCopyRequest.select()),
           "ireqs": sorted((r.path,bool(r.completed)) for r in ArchiveFileImportRequest.select()),
           "files": sorted((f.acq.name,f.name,f.size_b) for f in ArchiveFile.select())}
    tree = sorted(str(p.relative_to(tmp)) for p in tmp.rglob("*") if p.name!="ALPENHORN_NODE" and not p.is_dir())
    return idx, tree
def run(kind, k):
    tmp, sdb = world(kind); ip = Interposer(sdb); ip.k = k; ip.install()
    crashed = False
    try:
        try: iterate(Q())
        except Crash: crashed = True
    finally:
        ip.remove()
    mid = snapshot(tmp)
    # restart
    dflt._reserved_bytes.clear(); global_abort.clear()
    prev=None
    for i in range(8):
        iterate(Q()); s = snapshot(tmp)
        if s == prev: break
        prev = s
    shutil.rmtree(tmp)
    return ip.n, ip.log, crashed, mid, prev
for kind in ("pull","import","delete"):
    n, log, _, _, final0 = run(kind, None)
    print("==", kind, "ops in first iteration:", n); print("   ", log)
    print("   uncrashed final:", final0)
    for k in range(1, n+1):
        _, _, crashed, mid, final = run(kind, k)
        same = final == final0
        print("   k=%d crashed=%s same_final=%s" % (k, crashed, same), "" if same else ("\n      mid=%s\n      final=%s" % (mid, final)))
