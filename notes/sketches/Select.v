(* Feasibility sketch: C15 — the candidate loop of UpdateableNode.update_delete. *)
From Coq Require Import List ZArith Bool Lia ZifyBool.
Import ListNotations.
Open Scope Z_scope.
Local Arguments Z.sub : simpl never.
Local Arguments Z.add : simpl never.
Local Arguments Z.leb : simpl never.
Local Arguments Z.ltb : simpl never.

Inductive wants := WM | WN.                       (* the query returns only wants_file != 'Y' rows *)
Record cand := { k_id : N; k_wants : wants; k_csize : option Z; k_fsize : option Z; k_pending : bool }.

Definition truthy (o : option Z) : bool := match o with Some z => negb (z =? 0) | None => false end.
Definition credit (c : cand) : Z :=
  if truthy (k_csize c) then match k_csize c with Some z => z | None => 0 end
  else if truthy (k_fsize c) then match k_fsize c with Some z => z | None => 0 end else 0.
Definition is_m (c : cand) : bool := match k_wants c with WM => true | WN => false end.

(* for copy in query.order_by(id): ... ; returns the copies handed to io.delete, in order *)
Fixpoint select (need : Z) (cs : list cand) : list cand :=
  match cs with
  | [] => []
  | c :: cs' =>
      if is_m c && (need <=? 0) then select need cs'
      else if k_pending c then select need cs'
      else c :: select (if 0 <? need then need - credit c else need) cs'
  end.

Definition nonneg (cs : list cand) : Prop := Forall (fun c => 0 <= credit c) cs.
Definition total (cs : list cand) : Z := fold_right (fun c a => credit c + a) 0 cs.

(* nothing removable is touched when there is no shortfall (free space sufficient or unknown, or archive node) *)
Theorem no_shortfall_no_removable need cs : need <= 0 -> Forall (fun c => k_wants c = WN) (select need cs).
Proof.
  revert need; induction cs as [|c cs IH]; intros need Hn; cbn [select]; [constructor|].
  destruct (is_m c) eqn:Em; cbn [andb].
  - destruct (need <=? 0) eqn:E; [apply IH; exact Hn | lia].
  - destruct (k_pending c); [apply IH; exact Hn|].
    constructor; [unfold is_m in Em; destruct (k_wants c); congruence|].
    destruct (0 <? need) eqn:E; [lia | apply IH; exact Hn].
Qed.

(* released, non-pending copies are always taken *)
Theorem released_always_taken need cs c :
  In c cs -> k_wants c = WN -> k_pending c = false -> In c (select need cs).
Proof.
  revert need; induction cs as [|d cs IH]; intros need Hin Hw Hp; [destruct Hin|].
  cbn [select]. destruct Hin as [->|Hin].
  - unfold is_m. rewrite Hw, Hp. cbn. left; reflexivity.
  - destruct (is_m d && (need <=? 0)); [apply IH; assumption|].
    destruct (k_pending d); [apply IH; assumption | right; apply IH; assumption].
Qed.

(* pending sources are never taken *)
Theorem pending_never_taken need cs : Forall (fun c => k_pending c = false) (select need cs).
Proof.
  revert need; induction cs as [|c cs IH]; intros need; cbn [select]; [constructor|].
  destruct (is_m c && (need <=? 0)); [apply IH|].
  destruct (k_pending c) eqn:E; [apply IH | constructor; [exact E | apply IH]].
Qed.

(* minimality: whenever a removable copy is taken, the credit of everything taken before it is < need.
   Stated with an accumulator: [pre] = credit already queued in this pass. *)
Fixpoint minimal (need pre : Z) (taken : list cand) : Prop :=
  match taken with
  | [] => True
  | c :: t => (k_wants c = WM -> pre < need) /\ minimal need (pre + credit c) t
  end.

Lemma select_minimal need0 : forall cs need pre,
  nonneg cs -> (0 < need -> need = need0 - pre) -> (need <= 0 -> need0 <= pre \/ need0 <= 0) -> 0 <= pre ->
  minimal need0 pre (select need cs).
Proof.
  induction cs as [|c cs IH]; intros need pre Hnn Hpos Hneg Hpre; cbn [select minimal]; [exact I|].
  inversion Hnn as [|? ? Hc Hcs]; subst.
  destruct (is_m c) eqn:Em; cbn [andb].
  - destruct (need <=? 0) eqn:E.
    + apply IH; assumption.
    + destruct (k_pending c); [apply IH; assumption|].
      cbn [minimal]. split; [intros _; lia|].
      assert (0 < need) by lia. destruct (0 <? need) eqn:E2; [|lia].
      apply IH; try assumption; lia.
  - destruct (k_pending c); [apply IH; assumption|].
    cbn [minimal]. split; [unfold is_m in Em; destruct (k_wants c); congruence|].
    destruct (0 <? need) eqn:E2.
    + apply IH; try assumption; lia.
    + apply IH; try assumption; try lia.
Qed.

Theorem C15_minimal need cs : nonneg cs -> minimal need 0 (select need cs).
Proof. intros H. apply select_minimal; try assumption; lia. Qed.
Print Assumptions C15_minimal.
