From Coq Require Import List NArith Bool Arith Lia.
From Alp Require Import Base.Str Base.Types Model.Import Proofs.ImportProofs.
Import ListNotations.
Local Open Scope nat_scope.

(* C09 for imports: _import_file as a sequence of autocommitted statements (the model of C04); a kill after any number k of
   them leaves the index as it is; the restarted daemon runs a fresh task for the still-pending request *)
Fixpoint steps (k : nat) (d : db) (p : pc) : db * pc :=
  match k with O => (d, p) | S k' => let '(d', p') := task_step d p in steps k' d' p' end.
Definition full (d : db) : db := fst (steps 9 d P0).
Definition db_eqb (a b : db) : bool :=
  Bool.eqb (d_acq a) (d_acq b) && Bool.eqb (d_file a) (d_file b) &&
  match d_copy a, d_copy b with Some (h, w), Some (h', w') => has_eqb h h' && wants_eqb w w' | None, None => true | _, _ => false end.
Definition all_dbs : list db :=
  flat_map (fun a => flat_map (fun f => map (fun c => {| d_acq := a; d_file := f; d_copy := c |})
     (None :: map Some (list_prod [HY; HM; HX; HN] [WY; WM; WN]))) [true; false]) [true; false].
Lemma in_all_dbs d : In d all_dbs.
Proof.
  destruct d as [a f c]. unfold all_dbs. apply in_flat_map. exists a. split; [destruct a; cbn; tauto|].
  apply in_flat_map. exists f. split; [destruct f; cbn; tauto|]. apply in_map_iff. exists c. split; [reflexivity|].
  destruct c as [[h w]|]; [right; apply in_map, in_prod; [destruct h; cbn; tauto | destruct w; cbn; tauto] | left; reflexivity].
Qed.
Lemma db_eqb_eq a b : db_eqb a b = true -> a = b.
Proof.
  destruct a as [a1 a2 a3], b as [b1 b2 b3]. unfold db_eqb. cbn [d_acq d_file d_copy]. intros H.
  apply andb_true_iff in H as [H H3]. apply andb_true_iff in H as [H1 H2]. apply Bool.eqb_prop in H1, H2. subst.
  destruct a3 as [[h w]|], b3 as [[h' w']|]; try discriminate; [|reflexivity].
  apply andb_true_iff in H3 as [Hh Hw]. destruct h, h'; try discriminate; destruct w, w'; try discriminate; reflexivity.
Qed.
(* a task is over after at most nine statements, and stays over *)
Definition chk_done (d : db) : bool := finished (snd (steps 9 d P0)).
Lemma all_done : forallb chk_done all_dbs = true. Proof. vm_cast_no_check (eq_refl true). Qed.
Lemma steps_done d p m : finished p = true -> steps m d p = (d, p).
Proof. revert d. induction m as [|m IH]; intros d H; cbn [steps]; [reflexivity|]. destruct p; try discriminate. cbn [task_step]. apply IH. reflexivity. Qed.
Lemma steps_add k m d p : steps (k + m) d p = let '(d', p') := steps k d p in steps m d' p'.
Proof. revert d p. induction k as [|k IH]; intros d p; cbn [Nat.add steps]; [reflexivity|]. destruct (task_step d p) as [d' p']. apply IH. Qed.
Lemma steps_beyond d k : 9 <= k -> steps k d P0 = steps 9 d P0.
Proof.
  intros H. replace k with (9 + (k - 9)) by lia. rewrite steps_add. destruct (steps 9 d P0) as [d' p'] eqn:E.
  apply steps_done. pose proof (proj1 (forallb_forall _ _) all_done d (in_all_dbs d)) as F. unfold chk_done in F. rewrite E in F. exact F.
Qed.
(* for every index state and every k: kill after k statements, restart, run to the end = the uninterrupted run *)
Definition chk_crash (d : db) : bool := forallb (fun k => db_eqb (full (fst (steps k d P0))) (full d)) (seq 0 10).
Lemma all_crash : forallb chk_crash all_dbs = true. Proof. vm_cast_no_check (eq_refl true). Qed.
Lemma import_crash_recovers d k : full (fst (steps k d P0)) = full d.
Proof.
  pose proof (proj1 (forallb_forall _ _) all_crash d (in_all_dbs d)) as F. unfold chk_crash in F.
  destruct (le_lt_dec 9 k) as [Hk|Hk].
  - rewrite steps_beyond by exact Hk. apply db_eqb_eq. apply (proj1 (forallb_forall _ _) F 9). apply in_seq. lia.
  - apply db_eqb_eq. apply (proj1 (forallb_forall _ _) F k). apply in_seq. lia.
Qed.
