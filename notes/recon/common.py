import os, sys, pathlib, tempfile, logging
sys.path.insert(0, "/repo")
import peewee as pw
from alpenhorn.common import config, extensions
from alpenhorn import db
from alpenhorn.db import *
def setup(host="h1"):
    tmp = pathlib.Path(tempfile.mkdtemp(prefix="alp_", dir="/root/probe"))
    config.config = config.merge_dict_tree(config._default_config.copy(), {"base": {"hostname": host}})
    sdb = pw.SqliteDatabase(":memory:")
    extensions._db_ext = {"name": "verif", "database": {"connect": lambda config: sdb, "reentrant": False}}
    def detect(path, node):
        if len(path.parts) < 2: return None, None
        return path.parts[0], None
    extensions._id_ext = [detect]
    db.connect()
    db.database_proxy.create_tables(db.gamut)
    DataIndexVersion.create(component="alpenhorn", version=db.current_version)
    return tmp, sdb
def mknode(tmp, name, group, stype="A", host="h1", **kw):
    (tmp/name).mkdir(exist_ok=True)
    (tmp/name/"ALPENHORN_NODE").write_text(name+"\n")
    return StorageNode.create(name=name, group=group, root=str(tmp/name), host=host, active=True, storage_type=stype, **kw)
