From Coq Require Import List Arith Bool Lia.
From Alp Require Import Base.Txn Model.Cli Proofs.WorkerProofs.
Import ListNotations.

(* the update phase runs iff updating was requested and either no check phase was asked for or the user confirmed *)
Lemma update_iff do_check do_update confirmed :
  In CallUpdate (check_then_update do_check do_update confirmed) <-> do_update = true /\ (do_check = false \/ confirmed = true).
Proof.
  unfold check_then_update. destruct do_check, do_update, confirmed; cbn; intuition (try discriminate; try congruence).
Qed.

(* check mode, a declined confirmation, and stdin without --force never reach the update phase *)
Lemma no_update_in_check_mode is_dash force confirmed : ~ In CallUpdate (command_events is_dash true force confirmed).
Proof. unfold command_events, check_if_from_stdin, check_then_update. destruct is_dash, force, confirmed; cbn; intuition discriminate. Qed.
Lemma no_update_when_declined is_dash check : ~ In CallUpdate (command_events is_dash check false false).
Proof. unfold command_events, check_if_from_stdin, check_then_update. destruct is_dash, check; cbn; intuition discriminate. Qed.
Lemma no_update_from_stdin_without_force check confirmed : ~ In CallUpdate (command_events true check false confirmed).
Proof. unfold command_events, check_if_from_stdin, check_then_update. destruct check, confirmed; cbn; intuition discriminate. Qed.
Lemma forced_update_runs_once is_dash confirmed : command_events is_dash false true confirmed = [CallUpdate].
Proof. unfold command_events, check_if_from_stdin, check_then_update. destruct is_dash, confirmed; reflexivity. Qed.
Lemma update_at_most_once is_dash check force confirmed : length (filter (fun e => match e with CallUpdate => true | _ => false end) (command_events is_dash check force confirmed)) <= 1.
Proof. unfold command_events, check_if_from_stdin, check_then_update. destruct is_dash, check, force, confirmed; cbn; lia. Qed.

Section U.
  Variable index : Type.
  Notation unit_ := (unit_ index).

  Lemma run_reads_only (l : list (Txn.stmt index)) : writes index l = 0 -> forall k i, run_atomic index l k i = i.
  Proof.
    intros W k i. unfold run_atomic.
    assert (R : forall l k j, writes index l = 0 -> fst (run index l k j) = j).
    { clear. induction l as [|s l IH]; intros k j W; [reflexivity|]. cbn [run].
      destruct s; [|unfold writes in W; cbn in W; lia].
      destruct k as [[|k]|]; [reflexivity | apply IH; exact W | apply IH; exact W]. }
    destruct (run index l k i) as [i' r] eqn:E. destruct r; [reflexivity|]. pose proof (R l k i W) as H. rewrite E in H. exact H.
  Qed.

  Lemma run_units_no_writes (us : list unit_) : writing_units index us = 0 -> forall k i, run_units index us k i = i.
  Proof.
    induction us as [|u us IH]; intros W k i; [reflexivity|].
    unfold writing_units in W. cbn [filter] in W. destruct (unit_writes index u) eqn:Eu; [discriminate|].
    assert (Wu : writes index (unit_stmts index u) = 0) by (unfold unit_writes in Eu; apply negb_false_iff, Nat.eqb_eq in Eu; exact Eu).
    cbn [run_units]. destruct k as [j|].
    - destruct (Nat.ltb j (length (unit_stmts index u))); [apply run_reads_only, Wu|]. rewrite (run_reads_only _ Wu). apply IH, W.
    - rewrite (run_reads_only _ Wu). apply IH, W.
  Qed.

  (* a command whose statements contain at most one writing commit unit is all-or-nothing under a fault at any statement *)
  Lemma units_all_or_nothing (us : list unit_) : writing_units index us <= 1 ->
    forall k i, run_units index us k i = i \/ run_units index us k i = run_units index us None i.
  Proof.
    induction us as [|u us IH]; intros W k i; [left; reflexivity|].
    unfold writing_units in W. cbn [filter] in W. cbn [run_units].
    destruct (unit_writes index u) eqn:Eu.
    - (* this unit writes: nothing after it does *)
      assert (W0 : writing_units index us = 0) by (unfold writing_units; cbn [length] in W; lia).
      destruct k as [j|]; [|right; reflexivity].
      destruct (Nat.ltb j (length (unit_stmts index u))).
      + rewrite (run_units_no_writes us W0). apply atomic_all_or_nothing.
      + right. rewrite !(run_units_no_writes us W0). reflexivity.
    - assert (Wu : writes index (unit_stmts index u) = 0) by (unfold unit_writes in Eu; apply negb_false_iff, Nat.eqb_eq in Eu; exact Eu).
      destruct k as [j|].
      + destruct (Nat.ltb j (length (unit_stmts index u))); [left; apply run_reads_only, Wu|].
        rewrite !(run_reads_only _ Wu). apply IH, W.
      + right. reflexivity.
  Qed.
End U.

Definition ex_units : list (unit_ nat) :=
  [Auto Read; Block [Read; Write (fun n => n + 1); Write (fun n => n * 2)]; Auto Read].
Lemma example_units : writing_units nat ex_units = 1 /\ run_units nat ex_units None 3 = 8 /\ run_units nat ex_units (Some 3) 3 = 3 /\ run_units nat ex_units (Some 4) 3 = 8.
Proof. vm_compute. repeat split; reflexivity. Qed.
