From Coq Require Import List NArith Bool Arith Lia.
From Alp Require Import Base.Str Base.Types Model.Delete.
Import ListNotations.
Local Open Scope nat_scope.

Section P.
  Variable is_archive : N -> bool.
  Notation counts := (counts is_archive).
  Notation archive_count := (archive_count is_archive).
  Notation others := (others is_archive).
  Notation elsewhere := (elsewhere is_archive).

  Definition here (c d : dcopy) : bool := counts (d_file c) d && N.eqb (d_node d) (d_node c).

  Lemma split_count cs c : archive_count cs (d_file c) = others cs c + length (filter (here c) cs).
  Proof.
    unfold Delete.archive_count, Delete.others. induction cs as [|d cs IH]; [reflexivity|].
    cbn [filter]. unfold Delete.elsewhere, here in *.
    destruct (counts (d_file c) d); cbn [andb]; [|exact IH].
    destruct (N.eqb (d_node d) (d_node c)); cbn [negb length]; lia.
  Qed.

  Lemma here_le cs c : uniq cs -> length (filter (here c) cs) <= (if is_archive (d_node c) then 1 else 0).
  Proof.
    intros U. specialize (U (d_file c) (d_node c)).
    assert (H : length (filter (here c) cs) <= length (filter (fun d => N.eqb (d_file d) (d_file c) && N.eqb (d_node d) (d_node c)) cs)).
    { clear U. induction cs as [|d cs IH]; [reflexivity|]. cbn [filter]. unfold here, Delete.counts in *.
      destruct (N.eqb (d_file d) (d_file c)), (N.eqb (d_node d) (d_node c)); cbn [andb];
        destruct (has_eqb (d_has d) HY); cbn [andb]; try destruct (is_archive (d_node d)); cbn [andb length]; lia. }
    destruct (is_archive (d_node c)) eqn:A; [lia|].
    assert (Z0 : length (filter (here c) cs) = 0).
    { clear H U. induction cs as [|d cs IH]; [reflexivity|]. cbn [filter]. unfold here, Delete.counts in *.
      destruct (N.eqb_spec (d_node d) (d_node c)) as [E|]; [rewrite E, A|]; rewrite ?andb_false_r; exact IH. }
    lia.
  Qed.

  (* the kernel: the count test passing means at least two healthy archive copies on OTHER nodes *)
  Lemma kernel_safe cs c : uniq cs -> too_few (archive_count cs (d_file c)) (copies_required (is_archive (d_node c))) = false -> 2 <= others cs c.
  Proof.
    intros U H. unfold too_few in H. apply Nat.ltb_ge in H.
    rewrite split_count in H. pose proof (here_le cs c U) as L.
    unfold copies_required in H. destruct (is_archive (d_node c)); lia.
  Qed.

  Lemma uniq_mark id cs : uniq cs -> uniq (mark_removed id cs).
  Proof.
    intros U f n. specialize (U f n). unfold mark_removed.
    assert (E : filter (fun d => N.eqb (d_file d) f && N.eqb (d_node d) n) (map (fun c => if N.eqb (d_id c) id then removed c else c) cs)
                = map (fun c => if N.eqb (d_id c) id then removed c else c) (filter (fun d => N.eqb (d_file d) f && N.eqb (d_node d) n) cs)).
    { clear U. induction cs as [|d cs IH]; [reflexivity|]. cbn [map filter].
      assert (K : (let d' := if N.eqb (d_id d) id then removed d else d in N.eqb (d_file d') f && N.eqb (d_node d') n) = N.eqb (d_file d) f && N.eqb (d_node d) n)
        by (destruct (N.eqb (d_id d) id); reflexivity).
      cbn zeta in K. rewrite K. destruct (N.eqb (d_file d) f && N.eqb (d_node d) n); cbn [map]; rewrite IH; reflexivity. }
    rewrite E, map_length. exact U.
  Qed.

  (* delete_async: every unlink it issues happens while the index records at least two healthy archive copies of that
     file on other nodes; only copies it was handed are unlinked, at most once each, in order; the index changes only
     by marking unlinked copies removed *)
  Lemma loop_safe oserr arch : forall batch cs, uniq cs ->
    (forall c, In c batch -> is_archive (d_node c) = arch) ->
    Forall (fun e => 2 <= others (e_idx e) (e_copy e)) (snd (delete_loop is_archive oserr (copies_required arch) batch cs)) /\
    uniq (fst (delete_loop is_archive oserr (copies_required arch) batch cs)).
  Proof.
    induction batch as [|c rest IH]; intros cs U Hn; [split; [constructor | exact U]|].
    cbn [delete_loop].
    assert (Hr : forall x, In x rest -> is_archive (d_node x) = arch) by (intros x Hx; apply Hn; right; exact Hx).
    destruct (too_few (archive_count cs (d_file c)) (copies_required arch)) eqn:Et; [apply IH; assumption|].
    set (cs' := if oserr (d_id c) then cs else mark_removed (d_id c) cs).
    assert (U' : uniq cs') by (unfold cs'; destruct (oserr (d_id c)); [exact U | apply uniq_mark, U]).
    destruct (IH cs' U' Hr) as [H1 H2]. destruct (delete_loop is_archive oserr _ rest cs') as [cs'' es]. cbn [fst snd] in *.
    split; [|exact H2]. constructor; [|exact H1]. cbn [e_idx e_copy]. apply kernel_safe; [exact U|].
    rewrite (Hn c (or_introl eq_refl)). exact Et.
  Qed.

  (* delete_async on copies of one node *)
  Lemma task_safe oserr batch cs node : uniq cs -> (forall c, In c batch -> d_node c = node) ->
    Forall (fun e => 2 <= others (e_idx e) (e_copy e)) (snd (delete_async is_archive oserr batch cs)) /\
    uniq (fst (delete_async is_archive oserr batch cs)).
  Proof.
    intros U Hn. unfold delete_async. destruct batch as [|c0 rest]; [split; [constructor | exact U]|].
    apply loop_safe; [exact U|]. intros c Hc. rewrite (Hn c Hc), (Hn c0 (or_introl eq_refl)). reflexivity.
  Qed.

  Lemma effects_from_batch oserr required : forall batch cs,
    exists sub, map e_copy (snd (delete_loop is_archive oserr required batch cs)) = sub /\
      (forall c, In c sub -> In c batch) /\ length sub <= length batch.
  Proof.
    induction batch as [|c rest IH]; intros cs; [exists []; cbn; repeat split; auto; intros ? []|].
    cbn [delete_loop]. destruct (too_few _ required).
    - destruct (IH cs) as (sub & E & Hin & Hl). exists sub. repeat split; auto. intros x Hx; right; auto. cbn; lia.
    - set (cs' := if oserr (d_id c) then cs else mark_removed (d_id c) cs). destruct (IH cs') as (sub & E & Hin & Hl).
      destruct (delete_loop is_archive oserr required rest cs') as [cs'' es]. cbn [snd] in *. exists (c :: sub). cbn [map e_copy]. rewrite E.
      repeat split; auto. intros x [<-|Hx]; [left; reflexivity | right; auto]. cbn; lia.
  Qed.

  (* frame: rows other than those of the unlinked copies are untouched; an unlinked copy becomes (N, N) unless its
     unlink failed *)
  Lemma index_frame oserr required : forall batch cs c,
    ~ In (d_id c) (map d_id batch) -> In c cs -> In c (fst (delete_loop is_archive oserr required batch cs)).
  Proof.
    induction batch as [|b rest IH]; intros cs c Hn Hc; [exact Hc|]. cbn [delete_loop].
    cbn [map] in Hn. destruct (too_few _ required); [apply IH; [intros H; apply Hn; right; exact H | exact Hc]|].
    set (cs' := if oserr (d_id b) then cs else mark_removed (d_id b) cs).
    assert (Hc' : In c cs').
    { unfold cs'. destruct (oserr (d_id b)); [exact Hc|]. unfold mark_removed. apply in_map_iff. exists c. split; [|exact Hc].
      destruct (N.eqb_spec (d_id c) (d_id b)) as [E|]; [exfalso; apply Hn; left; symmetry; exact E | reflexivity]. }
    specialize (IH cs' c (fun H => Hn (or_intror H)) Hc'). destruct (delete_loop is_archive oserr required rest cs'). exact IH.
  Qed.
End P.

(* ---- KF-C01-1: two delete tasks on two archive nodes, interleaved ---- *)
Definition kf_arch (n : N) : bool := true.
Definition kf_copies : list dcopy :=
  [ {| d_id := 1; d_file := 9; d_node := 1; d_has := HY; d_wants := WN |}; {| d_id := 2; d_file := 9; d_node := 2; d_has := HY; d_wants := WN |};
    {| d_id := 3; d_file := 9; d_node := 3; d_has := HY; d_wants := WY |} ]%N.
Definition kf_tasks (t : nat) : dcopy := nth t kf_copies (Build_dcopy 0 0 0 HN WN).
Definition kf_schedule : list mop := [MCount 0; MCount 1; MUnlink 1; MUpdate 1; MUnlink 0; MUpdate 0].
Definition kf_final : mstate := fold_left (mstep kf_arch kf_tasks) kf_schedule {| m_cs := kf_copies; m_ok := []; m_effs := [] |}.
(* both tasks count 3 archive copies; B deletes; A's unlink then happens with ONE other healthy archive copy on record,
   and a single archive copy survives *)
Lemma interleaved_refuted :
  uniq kf_copies /\ exists e, In e (m_effs kf_final) /\ others kf_arch (e_idx e) (e_copy e) = 1 /\ archive_count kf_arch (m_cs kf_final) 9 = 1.
Proof.
  split.
  - intros f n. unfold kf_copies. cbn [filter d_file d_node]. destruct (N.eqb 9 f); cbn [andb]; [|cbn; lia].
    destruct (N.eqb_spec 1 n) as [<-|]; [cbn; lia|]. destruct (N.eqb_spec 2 n) as [<-|]; [cbn; lia|]. destruct (N.eqb 3 n); cbn; lia.
  - exists (nth 1 (m_effs kf_final) {| e_copy := Build_dcopy 0 0 0 HN WN; e_idx := [] |}). vm_compute. repeat split; auto.
Qed.

Definition ex_batch : list dcopy := [ {| d_id := 1; d_file := 9; d_node := 1; d_has := HY; d_wants := WN |}; {| d_id := 5; d_file := 8; d_node := 1; d_has := HY; d_wants := WN |} ]%N.
Definition ex_index : list dcopy := kf_copies ++ [ {| d_id := 5; d_file := 8; d_node := 1; d_has := HY; d_wants := WN |}; {| d_id := 6; d_file := 8; d_node := 2; d_has := HY; d_wants := WY |} ]%N.
Lemma example_delete : map (fun e => d_id (e_copy e)) (snd (delete_async kf_arch (fun _ => false) ex_batch ex_index)) = [1%N]
  /\ map d_has (fst (delete_async kf_arch (fun _ => false) ex_batch ex_index)) = [HN; HY; HY; HY; HY].
Proof. vm_compute. split; reflexivity. Qed.
