(* C10: Worker.run / Task.__call__ / do_cleanup on the error path, and RetryOperationalError.execute_sql. *)
From Coq Require Import List Arith Bool.
Import ListNotations.

Definition stmt := nat.                                   (* statement identity, for the fault oracle *)
Inductive act :=
| Stmt (s : stmt)                                         (* a DB statement *)
| Reg (first : bool) (id : nat) (body : list stmt)        (* task.on_cleanup(f, first=...) ; f runs [body] *)
| Other.                                                  (* raises something that is not OperationalError *)
Record cleanup := { cl_id : nat; cl_body : list stmt }.

Inductive raised := NoExc | DbErr | OtherExc.

Section W.
  Variable fault : stmt -> bool.

  Fixpoint run_stmts (l : list stmt) : bool :=            (* true = raised OperationalError *)
    match l with [] => false | s :: l' => if fault s then true else run_stmts l' end.

  (* one segment of the body, starting from the clean-ups registered by earlier segments *)
  Fixpoint run_body (acts : list act) (dq : list cleanup) : raised * list cleanup :=
    match acts with
    | [] => (NoExc, dq)
    | Stmt s :: t => if fault s then (DbErr, dq) else run_body t dq
    | Reg first id b :: t =>
        let c := {| cl_id := id; cl_body := b |} in
        run_body t (if first then c :: dq else dq ++ [c])
    | Other :: _ => (OtherExc, dq)
    end.

  (* Task.do_cleanup: while deque: popleft; call.  (raised?, remaining deque, ids started in order) *)
  Fixpoint do_cleanup (dq : list cleanup) : bool * list cleanup * list nat :=
    match dq with
    | [] => (false, [], [])
    | c :: dq' =>
        if run_stmts (cl_body c) then (true, dq', [cl_id c])
        else let '(r, rest, started) := do_cleanup dq' in (r, rest, cl_id c :: started)
    end.

  (* Worker.run: while True: try: task.do_cleanup(); break  except OperationalError: pass *)
  Fixpoint cleanup_loop (fuel : nat) (dq : list cleanup) : list nat :=
    match fuel with
    | O => []
    | S f => let '(r, rest, started) := do_cleanup dq in
             if r then started ++ cleanup_loop f rest else started
    end.

  Record result := { started : list nat; task_done_calls : nat; worker_exits : bool; global_abort : bool;
                     requeued_copy : bool; requeued_self : bool; left_over : list cleanup }.

  (* one delivery of a task to a worker.  [final] = this segment ends the body (otherwise it ends in a yield);
     [requeue] = the task's requeue flag *)
  Definition worker_iteration (requeue final : bool) (dq0 : list cleanup) (acts : list act) : result :=
    let '(r, dq) := run_body acts dq0 in
    match r with
    | OtherExc => {| started := []; task_done_calls := 0; worker_exits := true; global_abort := true;
                     requeued_copy := false; requeued_self := false; left_over := dq |}
    | DbErr => {| started := cleanup_loop (S (length dq)) dq; task_done_calls := 1; worker_exits := true; global_abort := false;
                  requeued_copy := requeue; requeued_self := false; left_over := [] |}
    | NoExc =>
        if final then
          let '(e, rest, st) := do_cleanup dq in
          if e then {| started := st ++ cleanup_loop (S (length rest)) rest; task_done_calls := 1; worker_exits := true;
                       global_abort := false; requeued_copy := requeue; requeued_self := false; left_over := [] |}
          else {| started := st; task_done_calls := 1; worker_exits := false; global_abort := false;
                  requeued_copy := false; requeued_self := false; left_over := [] |}
        else {| started := []; task_done_calls := 1; worker_exits := false; global_abort := false;
                requeued_copy := false; requeued_self := true; left_over := dq |}
    end.
End W.

Fixpoint no_other (acts : list act) : bool :=
  match acts with [] => true | Other :: _ => false | _ :: t => no_other t end.

(* db/_base.py RetryOperationalError.execute_sql: (attempts made, error reported?) *)
Definition no_retry (autoconnect in_txn : bool) : bool := negb autoconnect || in_txn.
Definition execute_sql (autoconnect in_txn fail1 fail2 : bool) : nat * bool :=
  if fail1 then
    if no_retry autoconnect in_txn then (1, true) else (2, fail2)
  else (1, false).

(* WorkerPool.check: dead workers are replaced in place unless the daemon is aborting *)
Definition pool_check (aborting : bool) (alive : list bool) : list bool :=
  if aborting then alive else map (fun _ => true) alive.
