(* Correspondence for C09 (imports): the records found after a kill at each interposed call of an import are states the
   statement-level model can be killed in *)
From Coq Require Import List NArith Bool Arith.
From Alp Require Import Base.Str Base.Types Model.Import Proofs.ImportCrashProofs.
Import ListNotations.
Local Open Scope nat_scope.
Definition D (a f : bool) (c : option (has * wants)) : db := {| d_acq := a; d_file := f; d_copy := c |}.
Definition reach (d0 x : db) : bool := existsb (fun k => db_eqb (fst (steps k d0 P0)) x) (seq 0 10).
(* (records before, records after a kill at call 1, 2, ..., records after the restarted daemon settled) *)
Definition icase := (db * list db * db)%type.
Definition icheck (c : icase) : bool := let '(d0, seen, final) := c in forallb (reach d0) seen && db_eqb final (full d0).
