(* Correspondence for C09's directory walk: a chain (innermost first), the number of rmdirs after which the first run was killed,
   and which directories existed after the killed run and after the retry *)
From Coq Require Import List Bool Arith.
From Alp Require Import Model.Rmdirs.
Import ListNotations.
Fixpoint bl_eqb (a b : list bool) : bool :=
  match a, b with [], [] => true | x :: a', y :: b' => Bool.eqb x y && bl_eqb a' b' | _, _ => false end.
Definition LV (p o : bool) : lvl := {| present := p; others := o |}.
Definition rcase := (list lvl * nat * (list bool * list bool))%type.
Definition rcheck (c : rcase) : bool :=
  let '(l, k, (a, b)) := c in
  bl_eqb a (map present (walk_k k false l)) && bl_eqb b (map present (walk false (walk_k k false l))).
