From Coq Require Import List NArith ZArith Bool Lia Arith ZifyBool.
From Alp Require Import Base.Str Base.Types Model.Md5 Model.Check.
Import ListNotations.

(* ================= the hash loop ================= *)
Section LoopProofs.
  Variable bs : nat.
  Variable bpc : nat.
  Hypothesis bs_pos : (0 < bs)%nat.
  Hypothesis bpc_pos : (0 < bpc)%nat.

  Lemma firstn_nil_iff (l : list byte) : firstn bs l = [] <-> l = [].
  Proof. destruct l; destruct bs eqn:E; cbn; try lia; split; congruence. Qed.

  Definition nonempty_blocks (fed : list (list byte)) : Prop := Forall (fun b => b <> []) fed.

  Lemma chunk_spec fuel : forall count rest fed,
    (length rest < fuel)%nat ->
    let '(eof, rest', fed') := md5_chunk bs bpc fuel count rest fed in
    concat fed' ++ rest' = concat fed ++ rest /\
    (eof = true -> rest' = []) /\
    (eof = false -> (length rest' < length rest)%nat) /\
    (nonempty_blocks fed -> nonempty_blocks fed').
  Proof.
    induction fuel as [|fuel IH]; intros count rest fed Hf; [lia|].
    cbn [md5_chunk read].
    destruct (firstn bs rest) as [|b block] eqn:Eb.
    - pose proof (proj1 (firstn_nil_iff rest) Eb) as Er. rewrite Er, skipn_nil. repeat split; auto; discriminate.
    - assert (Hsplit : (b :: block) ++ skipn bs rest = rest) by (rewrite <- Eb; apply firstn_skipn).
      assert (Hlen : (length (skipn bs rest) < length rest)%nat).
      { rewrite <- Hsplit at 2. rewrite app_length. cbn. lia. }
      assert (Hne : nonempty_blocks fed -> nonempty_blocks (fed ++ [b :: block])).
      { intros HF. apply Forall_app; split; [exact HF | repeat constructor; discriminate]. }
      destruct (bpc <=? S count)%nat.
      + repeat split; [| discriminate | intros _; exact Hlen | exact Hne].
        rewrite concat_app. cbn [concat]. rewrite app_nil_r, <- app_assoc, Hsplit. reflexivity.
      + specialize (IH (S count) (skipn bs rest) (fed ++ [b :: block])).
        destruct (md5_chunk bs bpc fuel (S count) (skipn bs rest) (fed ++ [b :: block])) as [[eof rest'] fed'].
        destruct IH as (Hc & He & Hn & Hf'); [lia|].
        repeat split.
        * rewrite Hc, concat_app. cbn [concat]. rewrite app_nil_r, <- app_assoc, Hsplit. reflexivity.
        * exact He.
        * intros E. specialize (Hn E). lia.
        * intros HF. apply Hf', Hne, HF.
  Qed.

  Lemma loop_spec fuel : forall rest fed, (length rest < fuel)%nat ->
    concat (md5_loop bs bpc fuel rest fed) = concat fed ++ rest /\
    (nonempty_blocks fed -> nonempty_blocks (md5_loop bs bpc fuel rest fed)).
  Proof.
    induction fuel as [|fuel IH]; intros rest fed Hf; [lia|].
    cbn [md5_loop].
    pose proof (chunk_spec (S (length rest)) 0 rest fed (Nat.lt_succ_diag_r _)) as H.
    destruct (md5_chunk bs bpc (S (length rest)) 0 rest fed) as [[eof rest'] fed'].
    destruct H as (Hc & He & Hn & Hf'). destruct eof.
    - rewrite (He eq_refl), app_nil_r in Hc. split; assumption.
    - destruct (IH rest' fed') as [I1 I2]; [specialize (Hn eq_refl); lia|]. split.
      + rewrite I1. exact Hc.
      + intros HF. apply I2, Hf', HF.
  Qed.

  (* every byte of every file, of any length, is fed exactly once and in order; no empty update *)
  Lemma blocks_cover content : concat (blocks_fed bs bpc content) = content /\ nonempty_blocks (blocks_fed bs bpc content).
  Proof.
    unfold blocks_fed. destruct (loop_spec (S (length content)) content []) as [H1 H2]; [lia|].
    split; [exact H1 | apply H2; constructor].
  Qed.

  Section HashProofs.
    Variable state : Type.
    Variable init : state.
    Variable update : state -> list byte -> state.
    Hypothesis update_app : forall s a b, update (update s a) b = update s (a ++ b).
    Hypothesis update_nil : forall s, update s [] = s.

    Lemma fold_update fed s : fold_left update fed s = update s (concat fed).
    Proof.
      revert s; induction fed as [|b fed IH]; intros s; cbn [fold_left concat]; [symmetry; apply update_nil|].
      rewrite IH, update_app. reflexivity.
    Qed.

    Lemma md5sum_file_correct content : md5sum_file state init update bs bpc content = hash_of state init update content.
    Proof. unfold md5sum_file, hash_of. rewrite fold_update. destruct (blocks_cover content) as [-> _]. reflexivity. Qed.
  End HashProofs.
End LoopProofs.

(* ================= verdicts ================= *)
Lemma optstr_eqb_eq a b : optstr_eqb a b = true <-> a = b.
Proof.
  destruct a as [x|], b as [y|]; cbn; try (split; congruence).
  rewrite str_eqb_eq. split; [intros ->; reflexivity | intros H; injection H; auto].
Qed.

Definition size_ok (reg_size : option Z) (size : Z) : Prop := forall s, reg_size = Some s -> size = s.

Lemma size_mismatch_spec rs sz : size_mismatch rs sz = false <-> size_ok rs sz.
Proof.
  unfold size_mismatch, size_ok. destruct rs as [s|]; cbn.
  - rewrite negb_false_iff, Z.eqb_eq. split; [intros -> ? H; injection H; auto | intros H; apply H; reflexivity].
  - split; [intros _ s H; discriminate | reflexivity].
Qed.

Lemma verdict_healthy e so sz dm rs rm :
  verdict e so sz dm rs rm = Some HY <-> e = true /\ so = true /\ dm = rm /\ size_ok rs sz.
Proof.
  unfold verdict. destruct e, so; try (split; [discriminate | intros (?&?&_); discriminate]).
  destruct (size_mismatch rs sz) eqn:Es.
  - split; [discriminate|]. intros (_ & _ & _ & H). apply size_mismatch_spec in H. congruence.
  - apply size_mismatch_spec in Es. unfold digest_match. destruct (optstr_eqb dm rm) eqn:Ed.
    + apply optstr_eqb_eq in Ed. tauto.
    + split; [discriminate|]. intros (_ & _ & H & _). apply optstr_eqb_eq in H. congruence.
Qed.

Lemma verdict_corrupt e so sz dm rs rm :
  verdict e so sz dm rs rm = Some HX <-> e = true /\ so = true /\ ~ (dm = rm /\ size_ok rs sz).
Proof.
  unfold verdict. destruct e, so; try (split; [discriminate | intros (?&?&_); discriminate]).
  destruct (size_mismatch rs sz) eqn:Es.
  - split; [|reflexivity]. intros _. repeat split. intros [_ H]. apply size_mismatch_spec in H. congruence.
  - apply size_mismatch_spec in Es. unfold digest_match. destruct (optstr_eqb dm rm) eqn:Ed.
    + apply optstr_eqb_eq in Ed. split; [discriminate | intros (_ & _ & H); tauto].
    + split; [|reflexivity]. intros _. repeat split. intros [H _]. apply optstr_eqb_eq in H. congruence.
Qed.

Lemma verdict_missing e so sz dm rs rm : verdict e so sz dm rs rm = Some HN <-> e = false.
Proof.
  unfold verdict. destruct e; [|split; reflexivity]. split; [|discriminate].
  destruct so; [|discriminate]. destruct (size_mismatch rs sz); [discriminate|]. destruct (digest_match dm rm); discriminate.
Qed.

Lemma verdict_abandoned e so sz dm rs rm : verdict e so sz dm rs rm = None <-> e = true /\ so = false.
Proof.
  unfold verdict. destruct e, so; try (split; [discriminate | intros [? ?]; discriminate]); [|tauto].
  split; [|intros [_ ?]; discriminate]. destruct (size_mismatch rs sz); [discriminate|]. destruct (digest_match dm rm); discriminate.
Qed.

(* ================= digests ================= *)
Open Scope N_scope.

Lemma lower_hex c : is_hex c = true -> is_canon_hex (lower c) = true /\ dig (lower c) = dig c.
Proof.
  unfold is_hex, is_canon_hex, dig, lower, is_digit, is_lower_hex, is_upper_hex. intros H.
  destruct ((65 <=? c) && (c <=? 90)) eqn:E1.
  - assert (Hc : 65 <= c <= 70) by lia.
    split; [lia|].
    destruct ((48 <=? c + 32) && (c + 32 <=? 57)) eqn:E2; [lia|].
    destruct ((97 <=? c + 32) && (c + 32 <=? 102)) eqn:E3; [|lia].
    destruct ((48 <=? c) && (c <=? 57)) eqn:E4; [lia|].
    destruct ((97 <=? c) && (c <=? 102)) eqn:E5; [lia|].
    destruct ((65 <=? c) && (c <=? 70)) eqn:E6; lia.
  - split; [lia | reflexivity].
Qed.

Lemma dig_lt c : dig c < 16.
Proof.
  unfold dig, is_digit, is_lower_hex, is_upper_hex.
  destruct ((48 <=? c) && (c <=? 57)) eqn:E1; [lia|].
  destruct ((97 <=? c) && (c <=? 102)) eqn:E2; [lia|].
  destruct ((65 <=? c) && (c <=? 70)) eqn:E3; lia.
Qed.

Lemma dig_canon_inj a b : is_canon_hex a = true -> is_canon_hex b = true -> dig a = dig b -> a = b.
Proof.
  unfold is_canon_hex, dig, is_digit, is_lower_hex, is_upper_hex. intros Ha Hb.
  destruct ((48 <=? a) && (a <=? 57)) eqn:A1; destruct ((48 <=? b) && (b <=? 57)) eqn:B1;
  destruct ((97 <=? a) && (a <=? 102)) eqn:A2; destruct ((97 <=? b) && (b <=? 102)) eqn:B2; try lia.
Qed.

Definition hv (acc : N) (d : str) : N := fold_left (fun acc c => acc * 16 + dig c) d acc.

Lemma hv_map_lower d : forall acc, forallb is_hex d = true -> hv acc (map lower d) = hv acc d.
Proof.
  induction d as [|c d IH]; intros acc H; [reflexivity|]. cbn [forallb] in H. apply andb_true_iff in H as [Hc Hd].
  unfold hv in *. cbn [map fold_left]. destruct (lower_hex c Hc) as [_ ->]. apply IH, Hd.
Qed.

Lemma hv_inj : forall a b acc1 acc2, length a = length b ->
  forallb is_canon_hex a = true -> forallb is_canon_hex b = true ->
  hv acc1 a = hv acc2 b -> acc1 = acc2 /\ a = b.
Proof.
  induction a as [|x a IH]; intros [|y b] acc1 acc2 Hl Ha Hb H; cbn in Hl; try discriminate.
  - cbn in H. auto.
  - cbn [forallb] in Ha, Hb. apply andb_true_iff in Ha as [Hx Ha]. apply andb_true_iff in Hb as [Hy Hb].
    unfold hv in H. cbn [fold_left] in H.
    destruct (IH b (acc1 * 16 + dig x) (acc2 * 16 + dig y) ltac:(lia) Ha Hb H) as [E ->].
    pose proof (dig_lt x). pose proof (dig_lt y).
    assert (acc1 = acc2 /\ dig x = dig y) as [-> Ed] by lia.
    split; [reflexivity|]. f_equal. apply dig_canon_inj; assumption.
Qed.

(* what the CLI stores is the canonical spelling of the value that was typed *)
Lemma accept_md5_spec d d' : accept_md5 d = Some d' -> canonical_digest d' /\ hexval d' = hexval d /\ length d = 32%nat /\ forallb is_hex d = true.
Proof.
  unfold accept_md5. destruct (Nat.eqb (length d) 32) eqn:El; [|discriminate]. cbn [andb].
  destruct (forallb is_hex d) eqn:Eh; [|discriminate]. intros H; injection H as <-.
  apply Nat.eqb_eq in El. repeat split; try assumption.
  - rewrite map_length. exact El.
  - rewrite forallb_forall in *. intros c Hc. apply in_map_iff in Hc as (c0 & <- & Hc0). apply lower_hex, Eh, Hc0.
  - unfold hexval. apply (hv_map_lower d 0 Eh).
Qed.

Lemma accept_md5_rejects d : accept_md5 d = None <-> length d <> 32%nat \/ forallb is_hex d = false.
Proof.
  unfold accept_md5. destruct (Nat.eqb_spec (length d) 32) as [E|E]; cbn [andb].
  - destruct (forallb is_hex d); split; try discriminate; auto. intros [?|?]; congruence.
  - split; auto.
Qed.

(* on stored digests, the daemon's string comparison decides equality of digest values *)
Lemma canonical_eq_iff_value a b : canonical_digest a -> canonical_digest b -> (a = b <-> hexval a = hexval b).
Proof.
  intros [La Ha] [Lb Hb]. split; [intros ->; reflexivity|]. intros H.
  apply (hv_inj a b 0 0); [congruence | assumption | assumption | exact H].
Qed.

(* hashlib's hexdigest is canonical: 32 lower-case hex digits (an assumption on the hash, stated where used) *)
Definition example_digest : str := [100;52;49;100;56;99;100;57;56;102;48;48;98;50;48;52;101;57;56;48;48;57;57;56;101;99;102;56;52;50;55;101].
Lemma example_accept :
  accept_md5 (map (fun c => if (97 <=? c) && (c <=? 102) then c - 32 else c) example_digest) = Some example_digest
  /\ accept_md5 (48 :: 120 :: skipn 2 example_digest) = None
  /\ verdict true true 0 (Some example_digest) (Some 0%Z) (Some example_digest) = Some HY
  /\ verdict true true 5 (Some example_digest) (Some 0%Z) (Some example_digest) = Some HX.
Proof. vm_compute. repeat split; reflexivity. Qed.
