import os, sys, time
os.environ["TZ"] = sys.argv[1]; time.tzset()
from common import *
import shutil, datetime
from alpenhorn.daemon.update import UpdateableNode
from alpenhorn.scheduler import FairMultiFIFOQueue
tmp, sdb = setup("h1")
g = StorageGroup.create(name="g"); n = mknode(tmp,"n",g, auto_verify=5)
acq = ArchiveAcq.create(name="acq")
now = pw.utcnow()
ages = {"6d16h": datetime.timedelta(days=6, hours=16), "7d04h": datetime.timedelta(days=7, hours=4)}
for name, age in ages.items():
    f = ArchiveFile.create(acq=acq, name=name, size_b=1, md5sum="0"*32)
    ArchiveFileCopy.create(file=f, node=n, has_file="Y", wants_file="Y", last_update=now - age)
un = UpdateableNode(FairMultiFIFOQueue(), n)
un.run_auto_verify()
print(sys.argv[1], "min_days=7 ->", [(c.file.name, c.has_file) for c in ArchiveFileCopy.select()])
shutil.rmtree(tmp)
