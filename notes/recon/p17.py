from common import *
import shutil
from alpenhorn.daemon import update
from alpenhorn.scheduler import FairMultiFIFOQueue, pool, global_abort
class OneShot(pool.EmptyPool):
    def check(self): global_abort.set()
class Q(FairMultiFIFOQueue):
    def get(self, timeout=None): return super().get(timeout=0.01)
tmp, sdb = setup("h1")
g = StorageGroup.create(name="g")
(tmp/"disk").mkdir(); (tmp/"disk"/"ALPENHORN_NODE").write_text("other_node\n")   # disk belonging to another node
b = StorageNode.create(name="b", group=g, root=str(tmp/"disk"), host="h1", active=True, storage_type="A")
ArchiveFileImportRequest.create(node=b, path="ALPENHORN_NODE")
q = Q()
for i in range(2):
    global_abort.clear(); update.update_loop(q, OneShot(), False)
print("marker now:", repr((tmp/"disk"/"ALPENHORN_NODE").read_text()), [(r.path, r.completed) for r in ArchiveFileImportRequest.select()])
shutil.rmtree(tmp)
