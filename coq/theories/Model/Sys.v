(* C08: the index as lists of rows and its writers (daemon tasks and CLI), for histories of any length. *)
From Coq Require Import List NArith ZArith Bool Arith.
From Alp Require Import Base.Str Base.Types Model.Import.
Import ListNotations.
Local Open Scope N_scope.

Record crow := { c_file : N; c_node : N; c_has : has; c_wants : wants }.
Record frow := { f_id : N; f_acq : N; f_name : str; f_temp : bool }.       (* f_temp: the name is dot-prefixed or lies under .alpentemp* *)
Record rrow := { r_id : N; r_file : N; r_from : N; r_group : N; r_completed : bool; r_cancelled : bool; r_t0 : option Z; r_t1 : option Z }.
Record index := { copies : list crow; files : list frow; reqs : list rrow }.

Definition ckey (c : crow) : N * N := (c_file c, c_node c).
Definition key_eqb (a b : N * N) : bool := N.eqb (fst a) (fst b) && N.eqb (snd a) (snd b).
Definition has_copy (f n : N) (l : list crow) : bool := existsb (fun c => key_eqb (ckey c) (f, n)) l.

(* INSERT ... ; on IntegrityError UPDATE ... WHERE file, node *)
Definition upsert_copy (f n : N) (h : has) (w : wants) (l : list crow) : list crow :=
  if has_copy f n l
  then map (fun c => if key_eqb (ckey c) (f, n) then {| c_file := f; c_node := n; c_has := h; c_wants := w |} else c) l
  else l ++ [{| c_file := f; c_node := n; c_has := h; c_wants := w |}].
(* UPDATE ... WHERE <any predicate>: rows are rewritten in place, none appear or disappear *)
Definition update_copies (p : crow -> bool) (g : crow -> has * wants) (l : list crow) : list crow :=
  map (fun c => if p c then {| c_file := c_file c; c_node := c_node c; c_has := fst (g c); c_wants := snd (g c) |} else c) l.
Definition update_reqs (p : rrow -> bool) (g : rrow -> rrow) (l : list rrow) : list rrow := map (fun r => if p r then g r else r) l.

Definition fkey (f : frow) : N * str := (f_acq f, f_name f).
Definition fkey_eqb (a b : N * str) : bool := N.eqb (fst a) (fst b) && str_eqb (snd a) (snd b).
Definition has_file_row (a : N) (nm : str) (l : list frow) : bool := existsb (fun f => fkey_eqb (fkey f) (a, nm)) l.

Definition group_of (groups : list (N * N)) (n : N) : N := match find (fun p => N.eqb (fst p) n) groups with Some p => snd p | None => 0 end.

Inductive op :=
| OUpsertCopy (f n : N) (h : has) (w : wants)                   (* group search marking a file found on disk; import *)
| OUpdateCopies (p : crow -> bool) (g : crow -> has * wants)   (* check verdicts, delete, CLI clean / verify / state, autoclean, flagging a source *)
| OPullDone (rid n : N) (t0 t1 : Z)                            (* copy_request_done on node n: upsert + completion in one transaction *)
| OCancel (rid : N)
| OCreateReq (rid f from group : N)                             (* CLI sync, autosync: a fresh id *)
| ORegister (fid acq : N) (nm : str) (facts : Import.facts).   (* the daemon's import: get-or-create, behind import_decision *)

Definition complete (rid : N) (t0 t1 : Z) (r : rrow) : rrow :=
  {| r_id := r_id r; r_file := r_file r; r_from := r_from r; r_group := r_group r; r_completed := true; r_cancelled := r_cancelled r; r_t0 := Some t0; r_t1 := Some t1 |}.
Definition cancel (r : rrow) : rrow :=
  {| r_id := r_id r; r_file := r_file r; r_from := r_from r; r_group := r_group r; r_completed := r_completed r; r_cancelled := true; r_t0 := r_t0 r; r_t1 := r_t1 r |}.
Definition fresh_req (rid : N) (l : list rrow) : bool := negb (existsb (fun r => N.eqb (r_id r) rid) l).

Definition apply (groups : list (N * N)) (i : index) (o : op) : index :=
  match o with
  | OUpsertCopy f n h w => {| copies := upsert_copy f n h w (copies i); files := files i; reqs := reqs i |}
  | OUpdateCopies p g => {| copies := update_copies p g (copies i); files := files i; reqs := reqs i |}
  | OPullDone rid n t0 t1 =>
      match find (fun r => N.eqb (r_id r) rid) (reqs i) with
      | Some r => {| copies := upsert_copy (r_file r) n HY WY (copies i); files := files i;
                     reqs := update_reqs (fun r => N.eqb (r_id r) rid) (complete rid t0 t1) (reqs i) |}
      | None => i
      end
  | OCancel rid => {| copies := copies i; files := files i; reqs := update_reqs (fun r => N.eqb (r_id r) rid) cancel (reqs i) |}
  | OCreateReq rid f from g =>
      if fresh_req rid (reqs i)
      then {| copies := copies i; files := files i;
              reqs := reqs i ++ [{| r_id := rid; r_file := f; r_from := from; r_group := g; r_completed := false; r_cancelled := false; r_t0 := None; r_t1 := None |}] |}
      else i
  | ORegister fid acq nm facts =>
      if creates_records (import_decision facts) && negb (has_file_row acq nm (files i))
      then {| copies := copies i; files := files i ++ [{| f_id := fid; f_acq := acq; f_name := nm; f_temp := dot_name facts || in_temp_dir facts |}]; reqs := reqs i |}
      else i
  end.
Definition run (groups : list (N * N)) (i : index) (ops : list op) : index := fold_left (apply groups) ops i.

(* what the environment guarantees about an operation when it happens in state i:
   - a pull is completed on a node of the request's destination group (UpdateableGroup hands the request to one of its own nodes);
   - the clock did not go backwards between the start and the end of the transfer *)
Definition op_ok (groups : list (N * N)) (i : index) (o : op) : Prop :=
  match o with
  | OPullDone rid n t0 t1 => (t0 <= t1)%Z /\ forall r, In r (reqs i) -> r_id r = rid -> group_of groups n = r_group r
  | _ => True
  end.
Fixpoint ops_ok (groups : list (N * N)) (i : index) (ops : list op) : Prop :=
  match ops with [] => True | o :: ops' => op_ok groups i o /\ ops_ok groups (apply groups i o) ops' end.

(* ---- well-formedness ---- *)
Definition completed_wf (groups : list (N * N)) (cs : list crow) (r : rrow) : Prop :=
  r_completed r = true ->
  (exists t0 t1, r_t0 r = Some t0 /\ r_t1 r = Some t1 /\ (t0 <= t1)%Z) /\
  (exists c, In c cs /\ c_file c = r_file r /\ group_of groups (c_node c) = r_group r).
Record wf (groups : list (N * N)) (i : index) : Prop := {
  wf_copies : NoDup (map ckey (copies i));
  wf_files : NoDup (map fkey (files i));
  wf_req_ids : NoDup (map r_id (reqs i));
  wf_reqs : forall r, In r (reqs i) -> completed_wf groups (copies i) r;
  wf_names : forall f, In f (files i) -> f_temp f = false }.

(* boolean version, evaluated on snapshots of the real index *)
Fixpoint nodup_b {A} (eqb : A -> A -> bool) (l : list A) : bool :=
  match l with [] => true | x :: l' => negb (existsb (eqb x) l') && nodup_b eqb l' end.
Definition completed_wf_b (groups : list (N * N)) (cs : list crow) (r : rrow) : bool :=
  if r_completed r then
    match r_t0 r, r_t1 r with Some t0, Some t1 => (t0 <=? t1)%Z | _, _ => false end
    && existsb (fun c => N.eqb (c_file c) (r_file r) && N.eqb (group_of groups (c_node c)) (r_group r)) cs
  else true.
Definition wf_b (groups : list (N * N)) (i : index) : bool :=
  nodup_b key_eqb (map ckey (copies i)) && nodup_b fkey_eqb (map fkey (files i)) && nodup_b N.eqb (map r_id (reqs i))
  && forallb (completed_wf_b groups (copies i)) (reqs i) && forallb (fun f => negb (f_temp f)) (files i).
