From Coq Require Import List NArith ZArith Bool Arith Lia.
From Alp Require Import Base.Str Base.Types Model.Import Proofs.ImportProofs Model.Sys.
Import ListNotations.
Local Open Scope N_scope.

Lemma NoDup_app_snoc {A} (l : list A) x : NoDup l -> ~ In x l -> NoDup (l ++ [x]).
Proof.
  induction l as [|a l IH]; intros Hd Hn; cbn; [constructor; [intros [] | constructor]|].
  inversion Hd as [|y ys Hna Hd']; subst. constructor.
  - intros Hin. apply in_app_or in Hin as [Hin|[<-|[]]]; [contradiction | apply Hn; left; reflexivity].
  - apply IH; [exact Hd' | intros Hin; apply Hn; right; exact Hin].
Qed.

(* ---- keys ---- *)
Lemma key_eqb_eq a b : key_eqb a b = true <-> a = b.
Proof.
  destruct a as [a1 a2], b as [b1 b2]. unfold key_eqb. cbn [fst snd]. rewrite andb_true_iff, !N.eqb_eq.
  split; [intros [-> ->]; reflexivity | intros H; injection H as -> ->; split; reflexivity].
Qed.
Lemma has_copy_in f n l : has_copy f n l = true <-> In (f, n) (map ckey l).
Proof.
  unfold has_copy. rewrite existsb_exists, in_map_iff. split.
  - intros (c & Hc & He). apply key_eqb_eq in He. exists c. split; assumption.
  - intros (c & He & Hc). exists c. split; [assumption | apply key_eqb_eq; assumption].
Qed.

Lemma upsert_keys f n h w l :
  map ckey (upsert_copy f n h w l) = if has_copy f n l then map ckey l else map ckey l ++ [(f, n)].
Proof.
  unfold upsert_copy. destruct (has_copy f n l).
  - rewrite map_map. apply map_ext_in. intros c _. destruct (key_eqb (ckey c) (f, n)) eqn:E; [apply key_eqb_eq in E; rewrite E; reflexivity | reflexivity].
  - rewrite map_app. reflexivity.
Qed.
Lemma upsert_nodup f n h w l : NoDup (map ckey l) -> NoDup (map ckey (upsert_copy f n h w l)).
Proof.
  intros H. rewrite upsert_keys. destruct (has_copy f n l) eqn:E; [exact H|].
  apply NoDup_app_snoc; [exact H|]. intros Hin. apply has_copy_in in Hin. congruence.
Qed.
Lemma update_keys p g l : map ckey (update_copies p g l) = map ckey l.
Proof. unfold update_copies. rewrite map_map. apply map_ext. intros c. destruct (p c); reflexivity. Qed.

(* copy rows never disappear and never change file or node *)
Definition persists (cs cs' : list crow) : Prop := forall c, In c cs -> exists c', In c' cs' /\ c_file c' = c_file c /\ c_node c' = c_node c.
Lemma persists_refl cs : persists cs cs. Proof. intros c Hc. exists c. auto. Qed.
Lemma upsert_persists f n h w l : persists l (upsert_copy f n h w l).
Proof.
  intros c Hc. unfold upsert_copy. destruct (has_copy f n l).
  - exists (if key_eqb (ckey c) (f, n) then {| c_file := f; c_node := n; c_has := h; c_wants := w |} else c). split.
    + apply in_map_iff. exists c. split; [reflexivity | exact Hc].
    + destruct (key_eqb (ckey c) (f, n)) eqn:E; [|auto]. apply key_eqb_eq in E. unfold ckey in E. injection E as <- <-. auto.
  - exists c. split; [apply in_or_app; left; exact Hc | auto].
Qed.
Lemma upsert_has f n h w l : exists c, In c (upsert_copy f n h w l) /\ c_file c = f /\ c_node c = n.
Proof.
  unfold upsert_copy. destruct (has_copy f n l) eqn:E.
  - apply has_copy_in in E. apply in_map_iff in E as (c & Hk & Hc).
    exists {| c_file := f; c_node := n; c_has := h; c_wants := w |}. split; [|auto].
    apply in_map_iff. exists c. split; [|exact Hc]. assert (K : key_eqb (ckey c) (f, n) = true) by (apply key_eqb_eq; exact Hk). rewrite K. reflexivity.
  - exists {| c_file := f; c_node := n; c_has := h; c_wants := w |}. split; [apply in_or_app; right; left; reflexivity | auto].
Qed.
Lemma update_persists p g l : persists l (update_copies p g l).
Proof.
  intros c Hc. exists (if p c then {| c_file := c_file c; c_node := c_node c; c_has := fst (g c); c_wants := snd (g c) |} else c). split.
  - unfold update_copies. apply in_map_iff. exists c. split; [reflexivity | exact Hc].
  - destruct (p c); auto.
Qed.
Lemma completed_wf_persists groups cs cs' r : persists cs cs' -> completed_wf groups cs r -> completed_wf groups cs' r.
Proof.
  intros P H Hc. destruct (H Hc) as [T (c & Hin & Hf & Hg)]. split; [exact T|].
  destruct (P c Hin) as (c' & Hin' & Hf' & Hn'). exists c'. split; [exact Hin'|]. rewrite Hf', Hn'. auto.
Qed.

(* ---- requests ---- *)
Lemma update_reqs_ids p g l : (forall r, r_id (g r) = r_id r) -> map r_id (update_reqs p g l) = map r_id l.
Proof. intros H. unfold update_reqs. rewrite map_map. apply map_ext. intros r. destruct (p r); [apply H | reflexivity]. Qed.
Lemma in_update_reqs p g l r' : In r' (update_reqs p g l) -> exists r, In r l /\ r' = (if p r then g r else r).
Proof. unfold update_reqs. intros H. apply in_map_iff in H as (r & E & Hr). exists r. auto. Qed.

Lemma fkey_eqb_eq a b : fkey_eqb a b = true <-> a = b.
Proof.
  destruct a as [a1 a2], b as [b1 b2]. unfold fkey_eqb. cbn [fst snd]. rewrite andb_true_iff, N.eqb_eq, str_eqb_eq.
  split; [intros [-> ->]; reflexivity | intros H; injection H as -> ->; split; reflexivity].
Qed.
Lemma has_file_row_in a nm l : has_file_row a nm l = true <-> In (a, nm) (map fkey l).
Proof.
  unfold has_file_row. rewrite existsb_exists, in_map_iff. split.
  - intros (f & Hf & He). apply fkey_eqb_eq in He. exists f. auto.
  - intros (f & He & Hf). exists f. split; [assumption | apply fkey_eqb_eq; assumption].
Qed.

Lemma nodup_id_inj l : NoDup (map r_id l) -> forall r r0, In r l -> In r0 l -> r_id r = r_id r0 -> r = r0.
Proof.
  induction l as [|a l IH]; intros Hnd r r0 H1 H2 E; [destruct H1|].
  cbn [map] in Hnd. inversion Hnd as [|x xs Hnotin Hnd']; subst.
  destruct H1 as [H1|H1], H2 as [H2|H2].
  - congruence.
  - exfalso. apply Hnotin. apply in_map_iff. exists r0. split; [congruence | exact H2].
  - exfalso. apply Hnotin. apply in_map_iff. exists r. split; [congruence | exact H1].
  - apply IH; assumption.
Qed.

(* the import gate never lets a temporary name through *)
Lemma gate_no_temp facts : creates_records (import_decision facts) = true -> dot_name facts || in_temp_dir facts = false.
Proof.
  intros H. destruct (dot_name facts) eqn:D; [|destruct (in_temp_dir facts) eqn:T; [|reflexivity]].
  - destruct (never_imported facts) as (_ & C & _); [right; right; left; exact D | congruence].
  - destruct (never_imported facts) as (_ & C & _); [right; right; right; left; exact T | congruence].
Qed.

(* ---- every writer preserves well-formedness ---- *)
Lemma apply_wf groups i o : wf groups i -> op_ok groups i o -> wf groups (apply groups i o).
Proof.
  intros [Hc Hf Hid Hr Hn] Hok. destruct o as [f n h w | p g | rid n t0 t1 | rid | rid f from g | fid acq nm facts]; cbn [apply].
  - constructor; cbn [copies files reqs]; auto.
    + apply upsert_nodup, Hc.
    + intros r Hin. eapply completed_wf_persists; [apply upsert_persists | apply Hr, Hin].
  - constructor; cbn [copies files reqs]; auto.
    + rewrite update_keys. exact Hc.
    + intros r Hin. eapply completed_wf_persists; [apply update_persists | apply Hr, Hin].
  - destruct (find (fun r => N.eqb (r_id r) rid) (reqs i)) as [r0|] eqn:Ef; [|constructor; auto].
    apply find_some in Ef as [Hin0 Hid0]. apply N.eqb_eq in Hid0. cbn [op_ok] in Hok. destruct Hok as [Ht Hg].
    constructor; cbn [copies files reqs]; auto.
    + apply upsert_nodup, Hc.
    + rewrite update_reqs_ids; [exact Hid | reflexivity].
    + intros r' Hin'. apply in_update_reqs in Hin' as (r & Hin & ->).
      destruct (N.eqb (r_id r) rid) eqn:E.
      * apply N.eqb_eq in E. intros _. split; [exists t0, t1; cbn; auto|].
        (* same id => same row, so the file upserted is this request's file *)
        assert (r = r0) by (apply (nodup_id_inj (reqs i)); auto; congruence).
        subst r0. destruct (upsert_has (r_file r) n HY WY (copies i)) as (c & Hcin & Hcf & Hcn). exists c. split; [exact Hcin|]. cbn [complete r_file r_group].
        split; [exact Hcf | rewrite Hcn; apply Hg; auto].
      * eapply completed_wf_persists; [apply upsert_persists | apply Hr, Hin].
  - constructor; cbn [copies files reqs]; auto.
    + rewrite update_reqs_ids; [exact Hid | reflexivity].
    + intros r' Hin'. apply in_update_reqs in Hin' as (r & Hin & ->). destruct (N.eqb (r_id r) rid); [|apply Hr, Hin].
      intros Hcomp. cbn [cancel r_completed] in Hcomp. destruct (Hr r Hin Hcomp) as [T C]. split; [exact T | exact C].
  - destruct (fresh_req rid (reqs i)) eqn:Efr; [|constructor; auto].
    constructor; cbn [copies files reqs]; auto.
    + rewrite map_app. cbn [map r_id]. apply NoDup_app_snoc; [exact Hid|]. intros Hin. apply in_map_iff in Hin as (r & Hrid & Hin).
      unfold fresh_req in Efr. apply negb_true_iff in Efr. assert (X : existsb (fun r => N.eqb (r_id r) rid) (reqs i) = true) by (apply existsb_exists; exists r; split; [exact Hin | apply N.eqb_eq; exact Hrid]). congruence.
    + intros r Hin. apply in_app_or in Hin as [Hin|[<-|[]]]; [apply Hr, Hin | intros Hcomp; discriminate Hcomp].
  - destruct (creates_records (import_decision facts) && negb (has_file_row acq nm (files i))) eqn:Eg; [|constructor; auto].
    apply andb_true_iff in Eg as [Eg1 Eg2]. apply negb_true_iff in Eg2.
    constructor; cbn [copies files reqs]; auto.
    + rewrite map_app. cbn [map]. apply NoDup_app_snoc; [exact Hf|]. intros Hin.
      assert (X : has_file_row acq nm (files i) = true) by (apply has_file_row_in; exact Hin). congruence.
    + intros f Hin. apply in_app_or in Hin as [Hin|[<-|[]]]; [apply Hn, Hin | cbn [f_temp]; apply gate_no_temp, Eg1].
Qed.

(* ... hence every history of writers, of any length *)
Lemma run_wf groups ops : forall i, wf groups i -> ops_ok groups i ops -> wf groups (run groups i ops).
Proof.
  induction ops as [|o ops IH]; intros i Hw Hok; cbn [run fold_left]; [exact Hw|].
  destruct Hok as [H1 H2]. apply IH; [apply apply_wf; assumption | exact H2].
Qed.
Lemma empty_wf groups : wf groups {| copies := []; files := []; reqs := [] |}.
Proof. constructor; cbn; try apply NoDup_nil; intros ? []. Qed.

(* the boolean check evaluated on snapshots of the real index decides wf *)
Lemma nodup_b_spec {A} (eqb : A -> A -> bool) (Heq : forall a b, eqb a b = true <-> a = b) l : nodup_b eqb l = true <-> NoDup l.
Proof.
  induction l as [|x l IH]; cbn [nodup_b]; [split; [constructor | reflexivity]|].
  rewrite andb_true_iff, negb_true_iff, IH. split.
  - intros [Hn Hd]. constructor; [|exact Hd]. intros Hin. assert (X : existsb (eqb x) l = true) by (apply existsb_exists; exists x; split; [exact Hin | apply Heq; reflexivity]). congruence.
  - intros H. inversion H as [|y ys Hn Hd]; subst. split; [|exact Hd]. destruct (existsb (eqb x) l) eqn:E; [|reflexivity].
    apply existsb_exists in E as (y & Hy & Hxy). apply Heq in Hxy. subst y. contradiction.
Qed.
Lemma wf_b_sound groups i : wf_b groups i = true -> wf groups i.
Proof.
  unfold wf_b. intros H. apply andb_true_iff in H as [H H5]. apply andb_true_iff in H as [H H4]. apply andb_true_iff in H as [H H3]. apply andb_true_iff in H as [H1 H2].
  constructor.
  - apply (nodup_b_spec key_eqb key_eqb_eq), H1.
  - apply (nodup_b_spec fkey_eqb fkey_eqb_eq), H2.
  - apply (nodup_b_spec N.eqb N.eqb_eq), H3.
  - intros r Hin Hcomp. pose proof (proj1 (forallb_forall _ _) H4 r Hin) as Hb. unfold completed_wf_b in Hb. rewrite Hcomp in Hb.
    apply andb_true_iff in Hb as [Ht Hex]. split.
    + destruct (r_t0 r) as [t0|], (r_t1 r) as [t1|]; try discriminate. exists t0, t1. repeat split; auto. apply Z.leb_le, Ht.
    + apply existsb_exists in Hex as (c & Hc & Hb). apply andb_true_iff in Hb as [Hf Hg]. apply N.eqb_eq in Hf, Hg. exists c. auto.
  - intros f Hin. pose proof (proj1 (forallb_forall _ _) H5 f Hin) as Hb. apply negb_true_iff, Hb.
Qed.

Definition ex_groups : list (N * N) := [(1, 10); (2, 20)].
Definition ex_ops : list op := [OUpsertCopy 7 1 HY WY; OCreateReq 1 7 1 20; OPullDone 1 2 100 105; OUpdateCopies (fun c => N.eqb (c_node c) 1) (fun _ => (HY, WN)); OCancel 1].
Lemma example_sys : wf_b ex_groups (run ex_groups {| copies := []; files := []; reqs := [] |} ex_ops) = true /\
  map (fun c => (c_node c, c_has c, c_wants c)) (copies (run ex_groups {| copies := []; files := []; reqs := [] |} ex_ops)) = [(1, HY, WN); (2, HY, WY)].
Proof. vm_compute. split; reflexivity. Qed.
