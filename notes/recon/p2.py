from common import *
import hashlib
tmp, sdb = setup()
g = StorageGroup.create(name="g"); n = mknode(tmp, "n", g)
from alpenhorn.daemon.update import UpdateableNode
from alpenhorn.scheduler import FairMultiFIFOQueue, Task
q = FairMultiFIFOQueue()
un = UpdateableNode(q, n)
acq = ArchiveAcq.create(name="acq")
(tmp/"n"/"acq").mkdir()
data=b"hello"
(tmp/"n"/"acq"/"f").write_bytes(data)
md5 = hashlib.md5(data).hexdigest()
# (a) uppercase md5 and size 0
from alpenhorn.cli.options import validate_md5
for spelling in [md5.upper(), "0x"+md5[2:], " "+md5[1:], "+"+md5[1:], md5[:15]+"_"+md5[16:]]:
    try:
        validate_md5(spelling); acc=True
    except Exception as e: acc=False
    print("validate", repr(spelling), acc, "numerically-equal" if acc and int(spelling,16)==int(md5,16) else "")
f = ArchiveFile.create(acq=acq, name="f", size_b=5, md5sum=md5.upper())
c = ArchiveFileCopy.create(file=f, node=n, has_file="M", wants_file="Y")
un.io.check(c)
t,k = q.get(timeout=0.1); t(); q.task_done(k)
print("(a) uppercase verdict:", ArchiveFileCopy.get(id=c.id).has_file)
f.size_b=0; f.md5sum=md5; f.save(); c.has_file="M"; c.save()
un.io.check(ArchiveFileCopy.get(id=c.id)); t,k = q.get(timeout=0.1); t(); q.task_done(k)
print("(a2) size0 registered, 5 bytes on disk verdict:", ArchiveFileCopy.get(id=c.id).has_file)
# (b) exclusive yield
log=[]
def gen(task):
    log.append("g1"); yield 0; log.append("g2")
Task(gen, q, "k", exclusive=True)
t,k=q.get(timeout=0.1); t(); 
print("(b) after yield, fifo head:", q._fifos["k"])
q.task_done(k)
# (d) reservation leak on early exit
import alpenhorn.io.default as dflt
g2 = StorageGroup.create(name="g2"); n2 = mknode(tmp,"n2",g2)
f.size_b=5; f.save()
un2 = UpdateableNode(q, n2)
req = ArchiveFileCopyRequest.create(file=f, node_from=n, group_to=g2)
c.has_file="Y"; c.save()
un2.io.pull(req)
print("(d) reserved after dispatch", dict(dflt._reserved_bytes))
ArchiveFileCopy.create(file=f, node=n2, has_file="Y", wants_file="Y")
while True:
    it=q.get(timeout=0.05)
    if it is None: break
    t,k=it; t(); q.task_done(k)
print("(d) reserved after early-exit task", dict(dflt._reserved_bytes), ArchiveFileCopyRequest.get(id=req.id).cancelled)
import shutil; shutil.rmtree(tmp)
