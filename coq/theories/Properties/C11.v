(* C11 — Task queue: exactly-once delivery, per-FIFO order, truthful sizes.
   [gexec ops] runs any operation sequence (each operation is one critical section of the implementation, so
   operation sequences are exactly the interleavings at lock granularity, for any number of threads and keys). *)
From Coq Require Import List NArith ZArith Bool Arith.
From Alp Require Import Model.Queue Proofs.QueueProofs Model.Idle Proofs.IdleProofs.
Import ListNotations.

(* every item put is accounted for: still queued, still deferred, handed out, or discarded by join() — with
   multiplicities (cid x counts the items with id x) *)
Theorem C11_conservation : forall ops x, let '(s, g) := gexec ops in
  cid x (g_put g) = cid x (flat (ks s)) + cid x (items_of (dfr s)) + cid x (map snd (g_delivered g)) + cid x (g_discarded g).
Proof. exact conservation. Qed.
Print Assumptions C11_conservation.
(* ... hence never handed out more often than put: an item put once is handed to at most one consumer, once *)
Theorem C11_exactly_once : forall ops x, cid x (map snd (g_delivered (snd (gexec ops)))) <= cid x (g_put (snd (gexec ops))).
Proof. exact delivered_at_most_put. Qed.
Print Assumptions C11_exactly_once.

(* per-FIFO order *)
Theorem C11_fifo_order : forall ops k, let '(s, g) := gexec ops in sel k (g_entered g) = sel k (g_delivered g) ++ fifo (kget k s).
Proof. exact fifo_order. Qed.
Print Assumptions C11_fifo_order.

(* reported sizes = true numbers of queued / in-progress / deferred items, globally and per FIFO *)
Theorem C11_sizes_truthful : forall ops, let '(s, g) := gexec ops in
  qsize s = length (flat (ks s)) /\ inprogress_size s = sum_ip (ks s) /\ deferred_size s = length (dfr s) /\
  (forall k, fifo_size k s = length (fifo (kget k s)) + length (sel k (g_running g))).
Proof. exact sizes_truthful. Qed.
Print Assumptions C11_sizes_truthful.

(* a node (FIFO) is reported idle exactly when it has no queued or running task *)
Theorem C11_idle_iff : forall ops k, let '(s, g) := gexec ops in
  fifo_size k s = 0 <-> fifo (kget k s) = [] /\ sel k (g_running g) = [].
Proof. exact idle_iff. Qed.
Print Assumptions C11_idle_iff.

(* waiting for the queue to drain returns only when nothing is queued or running ... *)
Theorem C11_join_sound : forall ops, let '(s, g) := gexec ops in join_may_return s = true -> flat (ks s) = [] /\ g_running g = [].
Proof. exact join_sound. Qed.
Print Assumptions C11_join_sound.
(* ... and is never left sleeping: the only step that makes the exit condition true is a task_done, and that
   task_done's own test for notifying the waiters is then true *)
Theorem C11_join_no_lost_wakeup : forall s o,
  join_may_return s = false -> join_may_return (fst (step s o)) = true -> exists k, o = Done k /\ all_done (fst (step s o)) = true.
Proof. exact only_task_done_enables_join. Qed.
Print Assumptions C11_join_no_lost_wakeup.

(* "a node is reported idle exactly when it has no queued or running task": UpdateableNode.idle is the emptiness of the node's FIFO
   (whose reported size is the true number of queued plus running items by the theorems above); a group is reported idle exactly
   when its own FIFO is empty, its nodes are known and every one of them is idle *)
Theorem C11_group_idle_iff : forall size g nodes, group_idle size g nodes = true <->
  size g = 0%N /\ exists ns, nodes = Some ns /\ forall n, In n ns -> size n = 0%N.
Proof. exact group_idle_iff. Qed.
Print Assumptions C11_group_idle_iff.
Theorem C11_group_busy_has_witness : forall size g ns, group_idle size g (Some ns) = false -> size g <> 0%N \/ exists n, In n ns /\ size n <> 0%N.
Proof. exact group_not_idle_witness. Qed.
Print Assumptions C11_group_busy_has_witness.

Example C11_example : run empty ex_ops =
  [ONone; ONone; ONone; OBool true; OItem (Some 1%N); OItem None; ONone; OItem (Some 2%N); OItem None; ONat 2; ONone;
   OItem (Some 4%N); OItem (Some 3%N); ONat 0; ONat 2].
Proof. exact example_run. Qed.
