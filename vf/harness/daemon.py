"""Multi-host daemon simulation on the real code: each host's update_loop runs in its own persistent thread and is
stepped one main-loop iteration at a time; every mutating file-system call and every SQL statement is interposed
(logged, and able to inject a crash); storage is a real temporary tree."""
from __future__ import annotations

import builtins
import hashlib
import json
import os
import pathlib
import shutil
import threading

from vf.harness import world as w

_real = {}
_state = {"sim": None}


class Crash(BaseException):
    """kill -9: raised from an interposed call; every later interposed call raises again"""


def _abspath(p, dir_fd=None):
    p = os.fspath(p)
    if isinstance(p, bytes):
        p = p.decode()
    if dir_fd is not None and not os.path.isabs(p):
        try:
            p = os.path.join(os.readlink(f"/proc/self/fd/{dir_fd}"), p)
        except OSError:
            pass
    return os.path.normpath(os.path.join(os.getcwd(), p))


def _hook(op, *paths, dir_fd=None, **info):
    sim = _state["sim"]
    if sim is None or not sim.recording:
        return
    ps = [_abspath(p, dir_fd) for p in paths]
    if not any(q.startswith(sim.basestr) for q in ps):
        return  # outside the simulated world (interpreter internals, coqc files, ...)
    sim.on_fs(op, ps, info)


def install():
    """replace the os-level mutators (pathlib, shutil and tempfile look them up at call time)"""
    if _real:
        return
    for name in ("unlink", "remove", "rename", "replace", "link", "symlink", "mkdir", "rmdir", "utime", "chmod", "truncate", "open"):
        _real[name] = getattr(os, name)
    _real["builtins.open"] = builtins.open

    def mk1(name):
        def f(path, *a, dir_fd=None, **k):
            _hook(name, path, dir_fd=dir_fd)
            if dir_fd is not None:
                return _real[name](path, *a, dir_fd=dir_fd, **k)
            return _real[name](path, *a, **k)
        return f

    for name in ("unlink", "remove", "mkdir", "rmdir", "utime", "chmod", "truncate"):
        setattr(os, name, mk1(name))

    def mk2(name):
        def f(src, dst, *a, **k):
            _hook(name, src, dst)
            return _real[name](src, dst, *a, **k)
        return f

    for name in ("rename", "replace", "link", "symlink"):
        setattr(os, name, mk2(name))

    def os_open(path, flags, *a, dir_fd=None, **k):
        if flags & (os.O_WRONLY | os.O_RDWR | os.O_CREAT | os.O_TRUNC | os.O_APPEND):
            _hook("open-w", path, dir_fd=dir_fd, flags=flags)
        if dir_fd is not None:
            return _real["open"](path, flags, *a, dir_fd=dir_fd, **k)
        return _real["open"](path, flags, *a, **k)

    os.open = os_open

    def b_open(file, mode="r", *a, **k):
        if isinstance(file, (str, bytes, os.PathLike)) and any(c in mode for c in "wax+"):
            _hook("open-w", file, mode=mode)
        return _real["builtins.open"](file, mode, *a, **k)

    builtins.open = b_open

    from alpenhorn.common import util

    _real["run_command"] = util.run_command

    def run_command(cmd, *a, **k):
        sim = _state["sim"]
        if sim is not None and sim.recording:
            sim.on_fs("exec", ["exec:" + os.path.basename(str(cmd[0]))], {})
            if getattr(sim, "second_worker", False) and not getattr(sim, "in_second", False) and not sim.in_nested and os.path.basename(str(cmd[0])) in ("rsync", "bbcp"):
                sim._second_worker()
        return _real["run_command"](cmd, *a, **k)

    util.run_command = run_command


def uninstall():
    if not _real:
        return
    for name in ("unlink", "remove", "rename", "replace", "link", "symlink", "mkdir", "rmdir", "utime", "chmod", "truncate", "open"):
        setattr(os, name, _real[name])
    builtins.open = _real["builtins.open"]
    from alpenhorn.common import util

    util.run_command = _real["run_command"]
    _real.clear()


class Host:
    def __init__(self, name):
        self.name = name
        self.thread = None
        self.go = threading.Semaphore(0)
        self.done = threading.Semaphore(0)
        self.queue = None
        self.error = None
        self.alive = False
        self.iterations = 0


class Sim:
    """the world: one shared index, node trees under `base`, one daemon per host"""

    def __init__(self, base: pathlib.Path, spec: dict, conf=None):
        from alpenhorn.daemon import update as U
        from alpenhorn.io import default as D
        from alpenhorn.scheduler import pool

        self.U, self.D, self.pool = U, D, pool
        self.base = base
        self.basestr = str(base)
        self.spec = spec
        shutil.rmtree(base, ignore_errors=True)
        base.mkdir(parents=True)
        self.sdb = w.fresh_db(conf={"daemon": {"update_interval": 0, "serial_io_timeout": 3600, "auto_verify_min_days": spec.get("auto_verify_min_days", 7)}, **(conf or {})}, shared=True)
        self.orig_sql = self.sdb.execute_sql
        self.hosts: dict[str, Host] = {}
        self.recording = False
        self.cur_host = None
        self.effects = []  # effects of the current step
        self.sqllog = []
        self.crash_at = None
        self.sql_fault_at = None
        self.ncalls = 0
        self.crashed = False
        self.monitors = []  # callables(sim, op, paths, info) run inline at every fs effect
        self.tainted = set()  # (node name, relpath) touched by tracked external faults
        self.ready_at_start = {}
        self.cur_task = None
        self.completed_by_daemon, self.removed_by_daemon = set(), set()
        self.delete_hooks = []  # callables(node row, copies) run when update_delete hands copies to io.delete
        self.interleave = None  # (host A, host B): run one iteration of B in the middle of A's next delete task
        self.in_nested = False
        self.nested_ran = False
        self.step_no = 0
        self.just_completed = set()
        D._reserved_bytes.clear()
        pool.global_abort.clear()
        self._build(spec)
        _state["sim"] = self
        install()
        self._wrap_serial_io()
        self._wrap_sql()
        self._wrap_tasks()

    # ---- world -------------------------------------------------------------------------------------------------
    def _build(self, spec):
        self.groups = {g["name"]: w.StorageGroup.create(name=g["name"], io_class=g.get("io_class")) for g in spec["groups"]}
        self.nodes = {}
        for n in spec["nodes"]:
            root = self.base / "roots" / n["name"]
            root.mkdir(parents=True, exist_ok=True)
            marker = n.get("marker", n["name"])
            if marker is not None:
                (root / "ALPENHORN_NODE").write_text(marker + "\n")
            self.nodes[n["name"]] = w.StorageNode.create(
                name=n["name"], group=self.groups[n["group"]], root=str(root) + n.get("root_suffix", ""), host=n["host"], active=n.get("active", True),
                storage_type=n["stype"], io_class=n.get("io_class"), min_avail_gb=n.get("min_avail_gb", 0), max_total_gb=n.get("max_total_gb"),
                auto_verify=n.get("auto_verify", 0), username=n.get("username"), address=n.get("address"), auto_import=n.get("auto_import", False))
        (self.base / "outside").mkdir(exist_ok=True)
        (self.base / "outside" / "precious").write_text("do not touch")
        self.acqs = {a: w.mkacq(a) for a in spec["acqs"]}
        self.files = []
        for i, f in enumerate(spec["files"]):
            content = w.content_of(f.get("tag", i + 1), f["size"])
            fr = w.mkfile(self.acqs[f["acq"]], f["name"], content)
            if f.get("reg_size", "auto") != "auto" or f.get("reg_md5", "auto") != "auto":
                w.ArchiveFile.update(size_b=f.get("reg_size", len(content)) if f.get("reg_size", "auto") != "auto" else len(content),
                                     md5sum=f.get("reg_md5") if f.get("reg_md5", "auto") != "auto" else hashlib.md5(content).hexdigest()).where(w.ArchiveFile.id == fr.id).execute()
                fr = w.ArchiveFile.get(id=fr.id)
            self.files.append((fr, content))
        for c in spec["copies"]:
            fr, content = self.files[c["file"]]
            node = self.nodes[c["node"]]
            w.mkcopy(node, fr, c["has"], c["wants"], size_b=len(content) if c["has"] == "Y" else None, ready=c.get("ready", True))
            disk = c.get("disk", "ok" if c["has"] in ("Y", "M", "X") else "absent")
            if disk != "absent":
                data = content if disk == "ok" else (content[:-1] + b"!" if content else b"!") if disk == "corrupt" else content[: len(content) // 2]
                w.put_on_disk(node, fr, data)
                # the initial world may disagree with storage (as after tampering): such copies are exempt until the daemon's own next verdict.
                # A copy recorded corrupt over bytes that are indeed wrong is a verdict already given: index and storage agree.
                if not ((c["has"] == "Y" and disk == "ok") or (c["has"] == "X" and disk in ("corrupt", "truncated"))):
                    self.tainted.add((c["node"], f"{fr.acq.name}/{fr.name}"))
        for r in spec.get("reqs", []):
            fr, _ = self.files[r["file"]]
            w.mkreq(fr, self.nodes[r["from"]], self.groups[r["to"]], completed=r.get("state") == "completed", cancelled=r.get("state") == "cancelled")
        for r in spec.get("rules", []):
            w.StorageTransferAction.create(node_from=self.nodes[r["from"]], group_to=self.groups[r["to"]], autosync=r.get("sync", False), autoclean=r.get("clean", False))
        for u in spec.get("unregistered", []):
            p = pathlib.Path(self.nodes[u["node"]].root, u["path"])
            p.parent.mkdir(parents=True, exist_ok=True)
            if u.get("kind") == "symlink":
                os.symlink(u["target"].replace("@OUT", str(self.base / "outside")).replace("@ROOT", self.nodes[u["node"]].root), p)
            elif u.get("kind") == "dir":
                p.mkdir(exist_ok=True)
            else:
                p.write_bytes(w.content_of(u.get("tag", 900), u.get("size", 11)))
        for r in spec.get("ireqs", []):
            w.ArchiveFileImportRequest.create(node=self.nodes[r["node"]], path=r["path"], recurse=r.get("recurse", False), register=r.get("register", True), completed=False)

    # ---- interposition -------------------------------------------------------------------------------------------
    def _tick(self, what):
        """count an interposed call; crash when asked"""
        if self.crashed:
            raise Crash()
        self.ncalls += 1
        if self.crash_at is not None and self.ncalls == self.crash_at:
            self.crashed = True
            raise Crash()

    def on_fs(self, op, paths, info):
        if (self.interleave and not self.in_nested and op == "unlink" and (self.cur_task or "").startswith("Delete copies")
                and self.cur_host == self.interleave[0]):
            a, b = self.interleave
            self.interleave = None
            self.nested_trigger = paths[0]  # the unlink during which the other host acted: only THIS copy's count predates it
            self._nested(a, b)
        self._tick(op)
        e = {"op": op, "paths": paths, "host": self.cur_host, "tick": self.ncalls, **({"mode": info["mode"]} if "mode" in info else {})}
        for m in self.monitors:
            m(self, e)
        self.effects.append(e)

    def _wrap_sql(self):
        sim = self

        def execute_sql(sql, params=None, *a, **k):
            verb = sql.split(None, 1)[0].upper() if sql.strip() else ""
            if sim.recording:
                if verb in ("INSERT", "UPDATE", "DELETE"):
                    sim._tick("sql:" + verb)
                elif sim.crashed:
                    raise Crash()
                sim.sqllog.append((verb, sql[:100], sim.sdb.transaction_depth(), sim.ncalls))
                if sim.sql_fault_at is not None and len(sim.sqllog) == sim.sql_fault_at:
                    raise w.pw.OperationalError("injected by the harness")
            return sim.orig_sql(sql, params, *a, **k)

        self.sdb.execute_sql = execute_sql

    def _wrap_tasks(self):
        from alpenhorn.scheduler.task import Task
        from alpenhorn.io.default import DefaultNodeIO

        if not hasattr(Task, "_verif_orig_call"):
            Task._verif_orig_call = Task.__call__
            DefaultNodeIO._verif_orig_delete = DefaultNodeIO.delete

            def call(task):
                sim = _state["sim"]
                if sim is None:
                    return Task._verif_orig_call(task)
                prev = sim.cur_task
                sim.cur_task = str(task)
                try:
                    return Task._verif_orig_call(task)
                finally:
                    sim.cur_task = prev

            def delete(io, copies):
                sim = _state["sim"]
                if sim is not None:
                    for hk in sim.delete_hooks:
                        hk(io.node, copies)
                return DefaultNodeIO._verif_orig_delete(io, copies)

            Task.__call__ = call
            DefaultNodeIO.delete = delete

    def init_requested(self, node):
        return w.ArchiveFileImportRequest.select().where(w.ArchiveFileImportRequest.node == node, w.ArchiveFileImportRequest.path == "ALPENHORN_NODE").count() > 0

    def _wrap_serial_io(self):
        U = self.U
        if getattr(U.serial_io, "_verif_wrapped", False):
            U.serial_io = U.serial_io._orig
        orig = U.serial_io
        sim_ref = _state

        def serial_io(queue):
            sim = sim_ref["sim"]
            h = getattr(threading.current_thread(), "_verif_host", None)
            if sim is not None and h is not None and getattr(sim, "before_tasks", None) is not None and not sim.in_nested:
                # something else acts between the main loop's dispatch and the execution of the queued tasks
                f, sim.before_tasks = sim.before_tasks, None
                rec, sim.recording = sim.recording, False
                try:
                    f()
                finally:
                    sim.recording = rec
                    w.config.config["base"]["hostname"] = sim.cur_host
            orig(queue)
            if sim is not None and h is not None:
                h.iterations += 1
                h.done.release()
                h.go.acquire()

        serial_io._verif_wrapped = True
        serial_io._orig = orig
        U.serial_io = serial_io

    # ---- daemons ---------------------------------------------------------------------------------------------------
    def _start(self, hostname):
        h = Host(hostname)
        h.queue = w.StepQueue.make()
        sim = self

        def run():
            try:
                sim.U.update_loop(h.queue, sim.pool.EmptyPool(), False)
            except Crash:
                h.error = "crash"
            except BaseException as e:  # noqa: BLE001
                import traceback

                h.error = "".join(traceback.format_exception_only(type(e), e)).strip() + " @ " + "".join(traceback.format_tb(e.__traceback__)[-2:])[-400:]
            h.alive = False
            h.done.release()

        t = threading.Thread(target=run, daemon=True)
        t._verif_host = h
        h.thread = t
        h.alive = True
        self.hosts[hostname] = h
        return h

    def _second_worker(self):
        """a second worker of the same daemon: while the first one is inside a transport, everything else that is queued on this host runs
        to completion (tasks are atomic with respect to one another except at this one point)"""
        h = self.hosts.get(self.cur_host)
        if h is None:
            return
        self.in_second = True
        prev = self.cur_task
        self.second_ran = []
        try:
            for _ in range(50):
                item = h.queue.get(timeout=0.001)
                if item is None:
                    break
                task, key = item
                self.second_ran.append(str(task))
                try:
                    task()
                finally:
                    h.queue.task_done(key)
        finally:
            self.in_second = False
            self.cur_task = prev

    def _nested(self, a, b):
        """host b runs a whole iteration while host a is between the count and the unlink of a delete"""
        saved = (self.effects, self.sqllog, self.cur_task, self.crash_at, self.ncalls)
        self.in_nested = True
        try:
            self.nested_result = self._iterate(b)
        finally:
            self.in_nested = False
            self.nested_ran = True
            self.effects, self.sqllog, self.cur_task, self.crash_at, self.ncalls = saved
            w.config.config["base"]["hostname"] = a
            self.cur_host = a
            self.recording = True

    def iterate(self, hostname, crash_at=None, sql_fault_at=None):
        self.step_no += 1
        self.nested_ran = False
        before = {"req": {r.id: bool(r.completed) for r in w.ArchiveFileCopyRequest.select()}, "copy": {c.id: c.has_file for c in w.ArchiveFileCopy.select()}}
        res = self._iterate(hostname, crash_at, sql_fault_at)
        self.crashed_last = bool(res.get("crashed"))
        if not hasattr(self, "unsettled"):
            self.unsettled = {}
        if self.crashed_last or res.get("error"):
            self.unsettled[hostname] = 2
        elif self.unsettled.get(hostname, 0) > 0:
            self.unsettled[hostname] -= 1
        self.just_completed = set()
        for r in w.ArchiveFileCopyRequest.select():
            if r.completed and not before["req"].get(r.id, False):
                self.completed_by_daemon.add(r.id)
                self.just_completed.add(r.id)
        # external tampering travels with the bytes: a transfer completed from a tampered source copy leaves a tampered destination
        for rid in self.just_completed:
            r = w.ArchiveFileCopyRequest.get(id=rid)
            rel = f"{r.file.acq.name}/{r.file.name}"
            if (r.node_from.name, rel) in self.tainted:
                for n in w.StorageNode.select().where(w.StorageNode.group == r.group_to_id):
                    self.tainted.add((n.name, rel))
        for c in w.ArchiveFileCopy.select():
            if c.has_file == "N" and before["copy"].get(c.id, "N") != "N":
                self.removed_by_daemon.add(c.id)
            elif c.has_file != "N":
                self.removed_by_daemon.discard(c.id)
            if before["copy"].get(c.id) == "M" and c.has_file != "M" and not self.crashed_last:
                # the daemon has just given its own verdict on this copy: whatever was done to the file before, index and storage must agree again
                self.tainted.discard((c.node.name, f"{c.file.acq.name}/{c.file.name}"))
        return res

    def _iterate(self, hostname, crash_at=None, sql_fault_at=None):
        """one pass of update_loop on `hostname` (dispatch + all queued tasks, serially)"""
        w.config.config["base"]["hostname"] = hostname
        self.cur_host = hostname
        self.ready_at_start[hostname] = self.local_ready_nodes(hostname)
        self.effects, self.sqllog = [], []
        self.crash_at, self.sql_fault_at, self.ncalls, self.crashed = crash_at, sql_fault_at, 0, False
        h = self.hosts.get(hostname)
        self.recording = True
        try:
            if h is None or not h.alive:
                h = self._start(hostname)
                h.thread.start()
            else:
                h.go.release()
            if not h.done.acquire(timeout=120):
                raise RuntimeError(f"daemon on {hostname} did not finish its iteration")
        finally:
            self.recording = False
        res = {"host": hostname, "effects": self.effects, "sql": self.sqllog, "error": h.error, "ncalls": self.ncalls, "crashed": self.crashed}
        if not h.alive:
            # the daemon died (crash or uncaught exception): its in-memory state is gone
            self.crashed = False
            # (all simulated hosts share one Python process: only the dead daemon's own nodes lose their reservations)
            for n in w.StorageNode.select().where(w.StorageNode.host == hostname):
                self.D._reserved_bytes.pop(n.name, None)
            self.pool.global_abort.clear()
            self.hosts.pop(hostname, None)
            if self.sdb.in_transaction():
                try:
                    self.sdb.rollback()
                except Exception:
                    pass
                while self.sdb.transaction_depth() > 0:
                    self.sdb.pop_transaction()
        return res

    def shutdown(self):
        self.recording = False
        self.pool.global_abort.set()
        for h in list(self.hosts.values()):
            if h.alive:
                h.go.release()
                h.thread.join(5)
        self.pool.global_abort.clear()
        self.hosts.clear()
        _state["sim"] = None
        self.restore_path()
        try:
            del self.sdb.execute_sql
        except AttributeError:
            pass
        if getattr(self.U.serial_io, "_verif_wrapped", False):
            self.U.serial_io = self.U.serial_io._orig
        uninstall()

    # ---- transports -------------------------------------------------------------------------------------------------------
    TOOLS = pathlib.Path(__file__).parent / "tools"

    def set_tools(self, which="both", **modes):
        """which: both | rsync | bbcp | none | real (the system's rsync); modes: rsync="fail", bbcp="wrong_md5", ..."""
        self._saved_path = getattr(self, "_saved_path", os.environ.get("PATH", ""))
        if which == "real":
            os.environ["PATH"] = "/usr/bin:/bin"
        else:
            os.environ["PATH"] = str(self.TOOLS / f"bin_{which}")
        conf = self.base / "tools.json"
        _real.get("builtins.open", open)(conf, "w").write(json.dumps({k: {"mode": v} for k, v in modes.items()}))
        os.environ["VERIF_TOOLS_CONF"] = str(conf)
        os.environ["VERIF_TOOLS_LOG"] = str(self.base / "tools.log")

    def restore_path(self):
        if hasattr(self, "_saved_path"):
            os.environ["PATH"] = self._saved_path

    # ---- observations ---------------------------------------------------------------------------------------------------
    def index(self):
        return w.dump_index()

    def trees(self):
        return {name: w.tree_listing(pathlib.Path(n.root)) for name, n in self.nodes.items()}

    def outside(self):
        return w.tree_listing(self.base / "outside")

    def node_rows(self):
        return {n.name: n for n in w.StorageNode.select()}

    def local_ready_nodes(self, hostname):
        """nodes a daemon on `hostname` may touch right now: local, active, marker naming the node"""
        out = {}
        for n in w.StorageNode.select():
            if n.host != hostname or not n.active:
                continue
            try:
                first = (pathlib.Path(n.root) / "ALPENHORN_NODE").read_text().splitlines()[0].rstrip()
            except (OSError, IndexError):
                first = None
            if first == n.name:
                out[n.name] = n
        return out
