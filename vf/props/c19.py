"""C19 — the auto-verification walker: exact cyclic batches, coverage bound with insertion accounting, age filter."""
import datetime
import math
import os
import time

from vf import core
from vf.core import cbool, clist, cn, cnat, copt, ctup, cz

TRUSTED = [
    "Coq 8.16.1 kernel + VM; no native_compute",
    "sqlite + peewee as the meaning of the two SELECT ... WHERE id >= cursor ORDER BY id LIMIT n queries (list reading validated by correspondence only)",
    "modelled, not verified: the live id list is given to the model by the harness (ids matching the walker's expressions at the time of the call)",
]
RULE = ("real QueryWalker on sqlite over ArchiveFileCopy with inserts/deletes/state flips between calls; exhaustive N<=6 x k<=8 x every start id "
        "(quick) / N<=8 x k<=10 (thorough) static runs plus random dynamic runs; every get() is one case (live ids, cursor, n, result); "
        "non-trivial = table non-empty, distinct by (live, cursor, n); age filter under 4 time zones around the boundary")


def proofs(ctx):
    # the walker of a node lives as long as the node's I/O object: it is dropped only when reinit() really re-created it
    import ast
    from vf.translate import core as T

    ctx.attempted.append("walker-lifecycle")
    try:
        upd = T.parse(core.REPO / "alpenhorn/daemon/update.py")
        ri = T.find_func(upd, "UpdateableNode.reinit")
        body = T.strip_doc(ri.body)
        resets = [n for n in ast.walk(ri) if isinstance(n, ast.Assign) and ast.unparse(n.targets[0]) == "self._av_walker"]
        guarded = [n for n in body if isinstance(n, ast.If) and ast.unparse(n.test) == "did_reinit" and any(x in ast.walk(n) for x in resets)]
        if len(resets) != 1 or len(guarded) != 1 or ast.unparse(resets[0].value) != "None":
            raise T.Untranslatable("UNTRANSLATABLE: UpdateableNode.reinit no longer drops the auto-verify walker exactly when the I/O object was re-created")
        rav = ast.unparse(T.find_func(upd, "UpdateableNode.run_auto_verify"))
        for frag in ("if self._av_walker is None:", "QueryWalker(ArchiveFileCopy, ArchiveFileCopy.node == self.db, ArchiveFileCopy.has_file != 'N')", "self._av_walker.get(self.db.auto_verify)"):
            if frag not in rav:
                raise T.Untranslatable(f"UNTRANSLATABLE: run_auto_verify no longer contains `{frag}`")
        # auto-verify is part of the idle update, which follows only an update that was not skipped
        up = T.strip_doc(T.find_func(upd, "UpdateableNode.update").body)
        last = up[-1]
        if not (isinstance(last, ast.If) and ast.unparse(last.test) == "idle and do_update" and ast.unparse(last.body[-1]) == "self._updated = True"
                and last.orelse and ast.unparse(last.orelse[-1]) == "self._updated = False"):
            raise T.Untranslatable("UNTRANSLATABLE: UpdateableNode.update no longer ends by recording in _updated whether the update ran (True) or was skipped (False)")
        sets = [ast.unparse(n) for n in ast.walk(T.find_func(upd, "UpdateableNode")) if isinstance(n, ast.Assign) and ast.unparse(n.targets[0]) == "self._updated"]
        if sorted(sets) != ["self._updated = False", "self._updated = False", "self._updated = True"]:
            raise T.Untranslatable(f"UNTRANSLATABLE: assignments to _updated changed: {sets}")
        ui = T.strip_doc(T.find_func(upd, "UpdateableNode.update_idle").body)
        gate = [n for n in ui if isinstance(n, ast.If)]
        if len(gate) != 1 or ast.unparse(gate[0].test) != "self._updated and self.idle" or "self.run_auto_verify()" not in ast.unparse(gate[0]) or "run_auto_verify" in "".join(ast.unparse(n) for n in ui if n is not gate[0]):
            raise T.Untranslatable("UNTRANSLATABLE: update_idle no longer runs auto-verify only under `self._updated and self.idle`")
        ctx.obligations.append("walker-lifecycle")
        # the gate itself, re-translated and tied to Model/Gate.v
        atoms = {"self._updated": ("updated", "bool"), "self.idle": ("idle_now", "bool"), "self.db.auto_verify": ("auto_verify", "Z")}
        upt = [ast.unparse(x.test) for x in T.if_tests(T.find_func(upd, "UpdateableNode.update"))]
        if upt.count("idle and do_update") != 1:
            raise T.Untranslatable(f"UNTRANSLATABLE: UpdateableNode.update has no single `idle and do_update` test: {upt}")
        d = [T.nth_test(upd, "UpdateableNode.update", upt.index("idle and do_update"), {"idle": "bool", "do_update": "bool"}, "g_update_runs", ["idle", "do_update"]),
             T.nth_test(upd, "UpdateableNode.update_idle", 0, {}, "g_idle_work", ["updated", "idle_now"], atoms=atoms, expect_count=2),
             T.nth_test(upd, "UpdateableNode.update_idle", 1, {}, "g_auto_verify_on", ["auto_verify"], atoms=atoms)]
        core.check_tie(ctx, {"Gen_gate": T.HEADER + "\n".join(d) + "\n"}, ["Tie_C19"])
    except T.Untranslatable as e:
        ctx.broke("translator", "auto-verify walker lifecycle", str(e))
    core.check_property_file(ctx, "C19.v")


def daemon_runs(ctx, cases, nworlds):
    """the real update_loop: consecutive idle iterations must continue the walk where the previous one stopped"""
    from alpenhorn.daemon import querywalker as QW
    from vf.harness import daemon

    base = ctx.tmp() / "av"
    for k in range(nworlds):
        rng = ctx.rng
        n, kk = rng.randint(1, 9), rng.randint(1, 7)
        spec = {"groups": [{"name": "g"}, {"name": "g2"}], "nodes": [{"name": "n", "group": "g", "stype": "A", "host": "h1", "auto_verify": kk}, {"name": "o", "group": "g2", "stype": "A", "host": "h2", "auto_verify": 2}],
                "acqs": ["acq"], "files": [{"acq": "acq", "name": f"f{i}", "size": 3} for i in range(n)],
                "copies": [{"file": i, "node": "n", "has": "Y", "wants": "Y"} for i in range(n)] + [{"file": i, "node": "o", "has": "Y", "wants": "Y"} for i in range(n) if i % 2], "auto_verify_min_days": 7}
        sim = daemon.Sim(base, spec)
        calls = []
        orig = QW.QueryWalker.get

        def get(self_, n_=1, _orig=orig, _calls=calls):
            cur = self_._id
            try:
                items = _orig(self_, n_)
            except Exception:
                _calls.append((id(self_), cur, n_, None))
                raise
            _calls.append((id(self_), cur, n_, ([c.id for c in items], self_._id)))
            return items

        QW.QueryWalker.get = get
        try:
            live = sorted(c.id for c in w_copies(sim, "n"))
            iters = 2 * (-(-n // kk) + 1) + 1
            for _ in range(iters):
                r = sim.iterate("h1")
                if r["error"]:
                    ctx.fail("C19:daemon-died", f"the daemon died: {r['error'][:300]}", {"family": "daemon", "spec": spec})
                    break
        finally:
            QW.QueryWalker.get = orig
            sim.shutdown()
        ctx.count("daemon-iterations", len(calls))
        ctx.distinct_add(("daemon", n, kk))
        rp = {"family": "daemon", "copies": n, "auto_verify": kk, "calls": [(c[1], c[2], c[3]) for c in calls]}
        if len(calls) < iters:
            ctx.fail("C19:auto-verify-skipped", f"{iters} idle iterations made only {len(calls)} auto-verify batches", rp)
        for a, b in zip(calls, calls[1:]):
            if a[3] is not None and b[1] != a[3][1]:
                ctx.fail("C19:walker-restarted", f"an iteration stopped with the cursor at {a[3][1]} but the next one started at {b[1]} (copies {live}, batch {kk}): the walk does not continue", rp)
                break
        # coverage: every copy within ceil(N/k)+1 consecutive batches
        bound = -(-n // kk) + 1
        for s in range(0, max(0, len(calls) - bound + 1)):
            seen = set()
            for c in calls[s:s + bound]:
                if c[3]:
                    seen |= set(c[3][0])
            if set(live) - seen:
                ctx.fail("C19:coverage-daemon", f"copies {sorted(set(live) - seen)} were not selected in the {bound} consecutive iterations starting at #{s} (N={n}, k={kk})", rp)
                break
        for c in calls:
            cases.append(term(live, c[1], c[2], c[3]))
        if k == 0:
            ctx.sample(rp)


GATE_CASES = []


def gate_runs(ctx, cases, nruns):
    """update() / update_idle() of a real UpdateableNode, one main-loop iteration at a time: an iteration whose update was skipped
    (tasks pending at its start, or cancelled by the I/O class) or which is not idle afterwards selects nothing, and the walk resumes unchanged"""
    from alpenhorn.daemon import querywalker as QW
    from alpenhorn.daemon import update as U
    from alpenhorn.scheduler import FairMultiFIFOQueue
    from vf.harness import world as w

    rng = ctx.rng
    base = ctx.tmp() / "gate"
    for run in range(nruns):
        root = base / f"r{run}"
        root.mkdir(parents=True, exist_ok=True)
        w.fresh_db(host="h1")
        g = w.mkgroup("g")
        n, kk = rng.randint(1, 8), rng.randint(1, 4)
        row = w.mknode(None, "n", g, stype="F", host="h1", root=str(root), auto_verify=kk)
        acq = w.ArchiveAcq.create(name="acq")
        old = datetime.datetime(2000, 1, 1)
        states = {}
        for i in range(n):
            f = w.ArchiveFile.create(acq=acq, name=f"f{i}", size_b=1, md5sum="0" * 32)
            # tracked copies are all that are not absent: healthy, corrupt and (between passes) suspect ones
            c = w.ArchiveFileCopy.create(file=f, node=row, has_file=rng.choice("YYYX"), wants_file="Y", size_b=1, last_update=old)
            states[c.id] = c.has_file
        queue = FairMultiFIFOQueue()
        un = U.UpdateableNode(queue, w.StorageNode.get(id=row.id))
        calls = []
        orig = QW.QueryWalker.get

        def get(self_, n_=1, _orig=orig, _calls=calls):
            cur = self_._id
            items = _orig(self_, n_)
            _calls.append((cur, n_, ([c.id for c in items], self_._id)))
            return items

        def drain():
            while True:
                it = queue.get(timeout=0.001)
                if it is None:
                    return
                queue.task_done(it[1])

        QW.QueryWalker.get = get
        hist = []
        try:
            live = sorted(c.id for c in w.ArchiveFileCopy.select().where(w.ArchiveFileCopy.node == row))
            for it in range(rng.randint(4, 9)):
                kind = rng.choice(["idle", "idle", "busy-then-done", "busy-stays", "cancelled", "busy-after"])
                if kind in ("busy-then-done", "busy-stays"):
                    queue.put(object(), un.io.fifo)
                saved = un.io.before_update
                if kind == "cancelled":
                    un.io.before_update = lambda idle: False
                idle0 = un.idle
                ncalls = len(calls)
                # the statements of update_loop for one node: update(), (workers run), update_idle()
                un.update()
                un.io.before_update = saved
                if kind != "busy-stays":
                    drain()
                if kind == "busy-after":
                    queue.put(object(), un.io.fifo)
                idle1 = un.idle
                # auto-verified copies are put back to 'Y' (the check task would do that) so that the age filter is not what is tested here
                un.update_idle()
                made = len(calls) - ncalls
                drain()
                for cid, st in states.items():
                    w.ArchiveFileCopy.update(has_file=st, last_update=old).where(w.ArchiveFileCopy.id == cid).execute()
                expect = 1 if (idle0 and kind != "cancelled" and idle1) else 0
                hist.append((kind, idle0, idle1, made))
                GATE_CASES.append(ctup(cbool(idle0), cbool(kind != "cancelled"), cbool(idle1), cz(kk), cbool(made > 0)))
                ctx.count("gate-iterations")
                rp = {"family": "gate", "copies": n, "auto_verify": kk, "iterations": [list(h) for h in hist]}
                if made != expect:
                    what = ("the update was skipped (busy)" if not idle0 else "the update was cancelled" if kind == "cancelled" else "tasks are pending after the update") if expect == 0 else "the update ran and the node is idle"
                    ctx.fail("C19:auto-verify-gate", f"iteration {it} ({kind}): {made} auto-verify batch(es) although {what}; history {hist}", rp)
                    break
            ctx.distinct_add(("gate", n, kk, tuple(h[0] for h in hist)))
            for a, b in zip(calls, calls[1:]):
                if b[0] != a[2][1]:
                    ctx.fail("C19:walker-restarted", f"a batch stopped with the cursor at {a[2][1]} but the next one started at {b[0]} (history {hist})", {"family": "gate", "iterations": [list(h) for h in hist]})
                    break
            for c in calls:
                cases.append(term(live, c[0], c[1], c[2]))
            bound = -(-n // kk) + 1
            if len(calls) >= bound:
                seen = set()
                for c in calls[:bound]:
                    seen |= set(c[2][0])
                if set(live) - seen:
                    ctx.fail("C19:coverage-daemon", f"tracked copies {sorted(set(live) - seen)} (recorded states {[states[x] for x in sorted(set(live) - seen)]}) were not selected in the first {bound} auto-verify batches "
                             f"(N={n}, k={kk})", {"family": "gate", "copies": n, "auto_verify": kk, "states": list(states.values())})
        finally:
            QW.QueryWalker.get = orig


def w_copies(sim, node):
    from vf.harness import world as w

    return list(w.ArchiveFileCopy.select().where(w.ArchiveFileCopy.node == sim.nodes[node], w.ArchiveFileCopy.has_file != "N"))


# ---- implementation side --------------------------------------------------------------------------------
class W:
    """a node with copies; the real walker exactly as run_auto_verify builds it"""

    def __init__(self):
        from vf.harness import world as w

        self.w = w
        w.fresh_db()
        g = w.mkgroup("g")
        self.node = w.mknode(None, "n", g, root="/nonexistent")
        self.other = w.mknode(None, "o", g, root="/nonexistent2")
        self.acq = w.ArchiveAcq.create(name="acq")
        self.nfiles = 0

    def add(self, has="Y", node=None):
        w = self.w
        self.nfiles += 1
        f = w.ArchiveFile.create(acq=self.acq, name=f"f{self.nfiles}", size_b=1, md5sum="0" * 32)
        c = w.ArchiveFileCopy.create(file=f, node=node or self.node, has_file=has, wants_file="Y", size_b=1)
        return c.id

    def live(self):
        w = self.w
        return sorted(c.id for c in w.ArchiveFileCopy.select().where(w.ArchiveFileCopy.node == self.node, w.ArchiveFileCopy.has_file != "N"))

    def walker(self):
        from alpenhorn.daemon.querywalker import QueryWalker

        w = self.w
        return QueryWalker(w.ArchiveFileCopy, w.ArchiveFileCopy.node == self.node, w.ArchiveFileCopy.has_file != "N")


def call_get(walker, n):
    import peewee as pw

    try:
        items = walker.get(n)
        return [c.id for c in items], walker._id
    except pw.DoesNotExist:
        return None


def interval(live, cur, x):
    if cur <= x:
        return {y for y in live if cur <= y < x}
    return {y for y in live if y >= cur or y < x}


def monitor_call(ctx, live, cur, n, res, hist):
    """the property on one call: n rows, cyclic continuation from the cursor, cursor after the last row"""
    if not live:
        ok = res is None
        exp = None
    else:
        # rows from the cursor on, then round and round from the beginning until n rows
        exp_items = ([i for i in live if i >= cur] + live * n)[:n]
        exp = (exp_items, exp_items[-1] + 1)
        ok = res is not None and (list(res[0]), res[1]) == exp
    if not ok:
        ctx.fail("C19:get-not-cyclic", f"QueryWalker.get({n}) from cursor {cur} over live ids {live} returned {res}, expected {exp}",
                 {"family": "walker", "history": hist, "live": live, "cursor": cur, "n": n, "observed": res, "expected": exp})
    return ok


def term(live, cur, n, res):
    r = copt(res, lambda r: ctup(clist([cn(i) for i in r[0]], "N"), cn(r[1])), "(list N * N)")
    return ctup(clist([cn(i) for i in live], "N"), cn(cur), cnat(n), r)


def static_runs(ctx, cases, maxN, maxK):
    """every table size, batch size and start id; table unchanged: x must come back within ceil(N/k)+1 calls"""
    for N in range(0, maxN + 1):
        wd = W()
        ids = [wd.add() for _ in range(N)]
        # make ids sparse: delete every third row of a larger table when N >= 3 (ids not contiguous)
        for k in range(1, maxK + 1):
            if N == 0:
                try:
                    wd.walker()
                    ctx.fail("C19:empty-init", "QueryWalker over an empty table did not raise DoesNotExist", {"family": "walker", "N": 0})
                except Exception as e:
                    if type(e).__name__ != "DoesNotExist":
                        raise
                ctx.count("walker-empty")
                continue
            for start in ids:
                wk = wd.walker()
                wk._id = start
                bound = math.ceil(N / k) + 1
                seen_at = {}
                for call in range(1, bound + 1):
                    cur = wk._id
                    res = call_get(wk, k)
                    ctx.count("walker-static")
                    ctx.distinct_add((tuple(ids), cur, k))
                    cases.append(term(ids, cur, k, res))
                    monitor_call(ctx, ids, cur, k, res, {"static": True, "N": N, "k": k, "start": start})
                    if res:
                        for i in res[0]:
                            seen_at.setdefault(i, call)
                missing = [i for i in ids if i not in seen_at]
                if missing:
                    ctx.fail("C19:coverage-static", f"unchanged table of {N} copies, k={k}, start {start}: copies {missing} not selected within {bound} calls",
                             {"family": "walker-static", "N": N, "k": k, "start": start, "missing": missing})


def dynamic_runs(ctx, cases, nruns):
    """random inserts / deletes / state flips between calls, with the accounting of the coverage theorem"""
    w = None
    for run in range(nruns):
        rng = ctx.rng
        wd = W()
        w = wd.w
        N0 = rng.randint(1, 8)
        for _ in range(N0):
            wd.add(has=rng.choice("YYMX"))
            if rng.random() < 0.3:
                wd.add(node=wd.other)  # rows of another node must be invisible
        live = wd.live()
        if not live:
            continue
        k = rng.randint(1, 10)
        wk = wd.walker()
        if rng.random() < 0.7:
            wk._id = rng.choice(live + [max(live) + 1, 1])
        x = rng.choice(live)
        m = len(interval(live, wk._id, x))
        a = 0
        hist = []
        calls = 0
        found = False
        mode = rng.choice(["removals", "mixed", "behind"])
        while calls < 40:
            live = wd.live()
            cur = wk._id
            res = call_get(wk, k)
            calls += 1
            ctx.count("walker-dynamic")
            ctx.distinct_add((tuple(live), cur, k))
            cases.append(term(live, cur, k, res))
            hist.append({"live": live, "cursor": cur, "k": k, "result": res})
            if not monitor_call(ctx, live, cur, k, res, hist[-6:]):
                break
            if res and x in res[0]:
                found = True
                break
            cur = wk._id
            # change the table, never touching x
            ops = []
            for y in live:
                if y != x and rng.random() < 0.25:
                    w.ArchiveFileCopy.update(has_file="N").where(w.ArchiveFileCopy.id == y).execute()
                    ops.append(("remove", y))
            if mode != "removals":
                for _ in range(rng.randint(0, 2)):
                    gone = [c.id for c in w.ArchiveFileCopy.select().where(w.ArchiveFileCopy.node == wd.node, w.ArchiveFileCopy.has_file == "N")]
                    if gone and rng.random() < 0.5:
                        y = rng.choice(gone)  # a copy flipping back from N
                        new = wd.live() + [y]
                        if mode == "behind" and y in interval(new, cur, x):
                            continue
                        w.ArchiveFileCopy.update(has_file="M").where(w.ArchiveFileCopy.id == y).execute()
                    else:
                        nxt = (w.ArchiveFileCopy.select(w.pw.fn.Max(w.ArchiveFileCopy.id)).scalar() or 0) + 1
                        if mode == "behind" and nxt in interval(wd.live() + [nxt], cur, x):
                            continue
                        y = wd.add(has="Y")
                    if y in interval(wd.live(), cur, x):
                        a += 1
                    ops.append(("add", y))
            hist[-1]["then"] = ops
        bound = (m + a) // k + 1
        if not found or calls > bound:
            if found or calls >= 40:
                ctx.fail("C19:coverage-accounted", f"copy {x} selected after {calls} calls (found={found}); theorem bound floor((m+a)/k)+1 = {bound} with m={m}, a={a}, k={k}",
                         {"family": "walker-dynamic", "x": x, "k": k, "m": m, "a": a, "history": hist})
        if mode in ("removals", "behind") and found:
            nb = math.ceil(N0 * 2 / k) + 1  # generous table-size bound is not the claim; the accounted bound above is
        if run < 2:
            ctx.sample({"dynamic_run": {"x": x, "k": k, "m": m, "entered_ahead": a, "calls_until_selected": calls, "bound": bound, "first_calls": hist[:2]}})


def known_finding_run(ctx, cases):
    """KF-C19: k fresh rows per call while the cursor is above x; visited rows removed; table size constant"""
    wd = W()
    w = wd.w
    x = wd.add()
    ids = [wd.add() for _ in range(5)]
    wk = wd.walker()
    wk._id = ids[0]
    k, N = 2, 6
    bound = math.ceil(N / k) + 1
    calls, found = 0, False
    for _ in range(12):
        live = wd.live()
        cur = wk._id
        res = call_get(wk, k)
        calls += 1
        cases.append(term(live, cur, k, res))
        ctx.count("walker-known-finding")
        if x in res[0]:
            found = True
            break
        for y in res[0]:
            w.ArchiveFileCopy.update(has_file="N").where(w.ArchiveFileCopy.id == y).execute()
            wd.add()
    if not found:
        ctx.fail("C19:starvation-by-insertion-ahead", f"table size constant {N}, k={k}: copy {x} not selected in {calls} calls (ceil(N/k)+1 = {bound})",
                 {"family": "walker-known-finding", "calls": calls})


def age_runs(ctx):
    """run_auto_verify's age filter on the real UpdateableNode method, several host time zones"""
    from vf.harness import world as w
    from alpenhorn.daemon import update as U

    acases = []
    saved_tz = os.environ.get("TZ")
    try:
        for tz in ["UTC", "Australia/Sydney", "America/Vancouver", "Asia/Kolkata"]:
            os.environ["TZ"] = tz
            time.tzset()
            for min_days in (0, 1, 7):
                wd = W()
                w.config.config["daemon"]["auto_verify_min_days"] = min_days
                now = int(time.time())
                ages = [min_days * 86400 + d for d in (-86400, -36000, -3600, -5, 5, 3600, 36000, 86400)]
                ages = [a for a in ages if a >= 0]
                ids = []
                for a in ages:
                    cid = wd.add()
                    upd = datetime.datetime.fromtimestamp(now - a, datetime.timezone.utc).replace(tzinfo=None)
                    w.ArchiveFileCopy.update(last_update=upd).where(w.ArchiveFileCopy.id == cid).execute()
                    ids.append(cid)
                wd.node.auto_verify = len(ids)
                wd.node.save()

                class Stub:
                    pass

                un = Stub()
                un.db = w.StorageNode.get(id=wd.node.id)
                un._av_walker = None
                un.name = "n"
                t0 = time.time
                U.time.time = lambda: float(now)
                try:
                    U.UpdateableNode.run_auto_verify(un)
                finally:
                    U.time.time = t0
                for cid, a in zip(ids, ages):
                    c = w.ArchiveFileCopy.get(id=cid)
                    skipped = c.has_file == "Y"
                    ctx.count("age-filter")
                    ctx.distinct_add((tz, min_days, a))
                    acases.append((now, now - a, min_days, skipped))
                    expect_skip = a <= min_days * 86400
                    if skipped != expect_skip:
                        ctx.fail("C19:age-filter", f"TZ={tz}: copy aged {a/86400:.3f} d with auto_verify_min_days={min_days} was {'skipped' if skipped else 're-queued'}",
                                 {"family": "age", "tz": tz, "age_s": a, "min_days": min_days, "skipped": skipped})
    finally:
        if saved_tz is None:
            os.environ.pop("TZ", None)
        else:
            os.environ["TZ"] = saved_tz
        time.tzset()
    ctx.sample({"age_filter": {"tz": "Australia/Sydney", "min_days": 7, "cases": len(acases)}})
    terms = [ctup(cz(n), cz(u), cz(d), cbool(s)) for n, u, d, s in acases]
    bad = core.run_cases(ctx, "age", "Corr.C19", "acase", "acheck", terms)
    for i in bad[:3]:
        ctx.broke("correspondence", f"age filter: model and implementation differ on (now, last_update, min_days, skipped) = {acases[i]}")


def explore(ctx):
    cases = []
    known_finding_run(ctx, cases)
    if ctx.quick():
        static_runs(ctx, cases, 7, 9)
        dynamic_runs(ctx, cases, 400)
    else:
        static_runs(ctx, cases, 8, 10)
        dynamic_runs(ctx, cases, 2500)
    daemon_runs(ctx, cases, 12 if ctx.quick() else 300)
    GATE_CASES.clear()
    gate_runs(ctx, cases, 25 if ctx.quick() else 600)
    bad = core.run_cases(ctx, "gate", "Corr.C19", "gcase", "gcheck", list(GATE_CASES), shard=2000, extra_imports=("Model.Gate",))
    for i in bad[:3]:
        ctx.broke("correspondence", f"auto-verify gate: model and implementation differ on (idle at start, update not cancelled, idle after, auto_verify, batch made) = {GATE_CASES[i]}")
    bad = core.run_cases(ctx, "walker", "Corr.C19", "case", "check", cases, shard=500)
    for i in bad[:3]:
        ctx.broke("correspondence", f"walker: model and implementation differ on case {cases[i]}")
    age_runs(ctx)


def search(ctx):
    cases = []
    dynamic_runs(ctx, cases, 3000)


def replay(ctx, rp):
    r = rp["replay"]
    if r.get("family") == "walker":
        wd = W()
        n = max(r["live"] + [0])
        for i in range(n):
            wd.add()
        w = wd.w
        w.ArchiveFileCopy.update(has_file="N").where(w.ArchiveFileCopy.id.not_in(r["live"])).execute()
        wk = wd.walker()
        wk._id = r["cursor"]
        res = call_get(wk, r["n"])
        print("live", wd.live(), "cursor", r["cursor"], "n", r["n"], "->", res)
        return 0 if monitor_call(ctx, wd.live(), r["cursor"], r["n"], res, {}) else 1
    print("replay for this family: re-run ./check C19 with VERIF_SEED=%s" % rp.get("seed"))
    return 2
