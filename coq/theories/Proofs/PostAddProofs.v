From Coq Require Import List NArith ZArith Bool Lia.
From Alp Require Import Base.Str Base.Types Model.PostAdd.
Import ListNotations.

Section P.
  Variable groups : list (N * N).
  Notation group_of := (group_of groups).

  (* requests: existing ones untouched, exactly one appended per autosync edge from n into another group
     that lacks a healthy copy, each naming (f, n, that group) *)
  Lemma requests_exact rules n f cs rs :
    snd (post_add groups rules n f cs rs) = rs ++ map (fun u => {| r_file := f; r_from := n; r_to := u_to u |}) (filter (sync_edge groups cs n f) rules).
  Proof. reflexivity. Qed.

  Lemma sync_edge_iff cs n f u : sync_edge groups cs n f u = true <->
    u_from u = n /\ u_to u <> group_of n /\ u_sync u = true /\ state_on_group groups cs (u_to u) f <> HY.
  Proof.
    unfold sync_edge, lacks_healthy. rewrite !andb_true_iff, !negb_true_iff, N.eqb_eq, N.eqb_neq.
    split; intros H; repeat split; try tauto.
    - destruct H as (_ & H). intros E. rewrite E in H. discriminate.
    - destruct H as (_ & _ & _ & H). destruct (state_on_group _ _ _ _); try reflexivity. congruence.
  Qed.

  (* copies: every copy keeps its identity, file, node and state; a copy changes (wants := N) exactly when it is
     a healthy, wanted copy of f on the source node of a non-self-loop autoclean edge into n's group *)
  Lemma copies_exact rules n f cs rs :
    Forall2 (fun c c' => (released groups rules n f c = false -> c' = c) /\ (released groups rules n f c = true -> c' = release c))
            cs (fst (post_add groups rules n f cs rs)).
  Proof.
    cbn [post_add fst]. induction cs as [|c cs IH]; cbn [map]; constructor; [|exact IH].
    destruct (released groups rules n f c); split; congruence.
  Qed.

  Lemma released_iff rules n f c : released groups rules n f c = true <->
    c_file c = f /\ c_has c = HY /\ c_wants c = WY /\
    exists u, In u rules /\ u_clean u = true /\ u_to u = group_of n /\ u_from u = c_node c /\ c_node c <> n /\
              group_of (c_node c) <> group_of n.
  Proof.
    unfold released. rewrite !andb_true_iff, N.eqb_eq, has_eqb_eq, wants_eqb_eq, existsb_exists. split.
    - intros (((Hf & Hh) & Hw) & u & Hin & Hu). repeat split; auto.
      apply andb_true_iff in Hu as [Hc Hn]. apply N.eqb_eq in Hn. unfold clean_edge, self_loop in Hc.
      rewrite !andb_true_iff, !negb_true_iff, N.eqb_eq, !N.eqb_neq in Hc. destruct Hc as (((Hto & Hne) & Hcl) & Hl).
      exists u. repeat split; auto; congruence.
    - intros (Hf & Hh & Hw & u & Hin & Hcl & Hto & Hfrom & Hne & Hg). repeat split; auto.
      exists u. split; [exact Hin|]. apply andb_true_iff. split; [|apply N.eqb_eq; exact Hfrom].
      unfold clean_edge, self_loop. rewrite !andb_true_iff, !negb_true_iff, N.eqb_eq, !N.eqb_neq. repeat split; auto; congruence.
  Qed.

  (* self-loops are ignored in both halves *)
  Lemma self_loop_never_syncs cs n f u : group_of (u_from u) = u_to u -> sync_edge groups cs n f u = false.
  Proof.
    intros E. destruct (sync_edge groups cs n f u) eqn:H; [|reflexivity]. apply sync_edge_iff in H as (H1 & H2 & _). congruence.
  Qed.
  Lemma self_loop_never_cleans n u : group_of (u_from u) = u_to u -> clean_edge groups n u = false.
  Proof. intros E. unfold clean_edge, self_loop. rewrite E, N.eqb_refl. cbn. apply andb_false_r. Qed.

  (* state_on_node priority *)
  Lemma state_priority cs g f :
    let st := state_on_group groups cs g f in
    (st = HY <-> exists c, In c cs /\ in_group groups g f c = true /\ c_has c = HY) /\
    (st = HN <-> forall c, In c cs -> in_group groups g f c = true -> c_has c = HN).
  Proof.
    unfold state_on_group. set (l := filter (in_group groups g f) cs).
    assert (Hl : forall c, In c l <-> In c cs /\ in_group groups g f c = true) by (intros c; apply filter_In).
    split.
    - destruct (existsb (fun c => has_eqb (c_has c) HY) l) eqn:EY.
      + split; [intros _|reflexivity]. apply existsb_exists in EY as (c & Hc & Hh). apply Hl in Hc as [H1 H2]. exists c. repeat split; auto. apply has_eqb_eq, Hh.
      + split.
        * intros H. destruct (existsb (fun c => has_eqb (c_has c) HM) l); [discriminate|]. destruct (existsb (fun c => has_eqb (c_has c) HX) l); discriminate.
        * intros (c & H1 & H2 & H3). assert (In c l) by (apply Hl; auto).
          assert (existsb (fun c => has_eqb (c_has c) HY) l = true) by (apply existsb_exists; exists c; split; [assumption | rewrite H3; reflexivity]). congruence.
    - destruct (existsb (fun c => has_eqb (c_has c) HY) l) eqn:EY; [|destruct (existsb (fun c => has_eqb (c_has c) HM) l) eqn:EM; [|destruct (existsb (fun c => has_eqb (c_has c) HX) l) eqn:EX]].
      + split; [discriminate|]. intros H. apply existsb_exists in EY as (c & Hc & Hh). apply Hl in Hc as [H1 H2]. apply has_eqb_eq in Hh. rewrite (H c H1 H2) in Hh. discriminate.
      + split; [discriminate|]. intros H. apply existsb_exists in EM as (c & Hc & Hh). apply Hl in Hc as [H1 H2]. apply has_eqb_eq in Hh. rewrite (H c H1 H2) in Hh. discriminate.
      + split; [discriminate|]. intros H. apply existsb_exists in EX as (c & Hc & Hh). apply Hl in Hc as [H1 H2]. apply has_eqb_eq in Hh. rewrite (H c H1 H2) in Hh. discriminate.
      + split; [intros _|reflexivity]. intros c H1 H2. assert (Hc : In c l) by (apply Hl; auto).
        destruct (c_has c) eqn:Eh; [| | |reflexivity]; exfalso.
        * assert (existsb (fun c => has_eqb (c_has c) HY) l = true) by (apply existsb_exists; exists c; split; [assumption | rewrite Eh; reflexivity]). congruence.
        * assert (existsb (fun c => has_eqb (c_has c) HM) l = true) by (apply existsb_exists; exists c; split; [assumption | rewrite Eh; reflexivity]). congruence.
        * assert (existsb (fun c => has_eqb (c_has c) HX) l = true) by (apply existsb_exists; exists c; split; [assumption | rewrite Eh; reflexivity]). congruence.
  Qed.
End P.

(* two groups {1,2} -> 10 and {3} -> 20; rules: 1->20 sync, 3->10 clean (fires), 2->10 clean (self-loop, ignored) *)
Definition ex_groups : list (N * N) := [(1, 10); (2, 10); (3, 20)]%N.
Definition ex_rules : list rule :=
  [ {| u_from := 1; u_to := 20; u_sync := true; u_clean := false |}; {| u_from := 3; u_to := 10; u_sync := false; u_clean := true |};
    {| u_from := 2; u_to := 10; u_sync := false; u_clean := true |} ]%N.
Definition ex_copies : list copy :=
  [ {| c_id := 1; c_file := 7; c_node := 1; c_has := HY; c_wants := WY |}; {| c_id := 2; c_file := 7; c_node := 2; c_has := HY; c_wants := WY |};
    {| c_id := 3; c_file := 7; c_node := 3; c_has := HY; c_wants := WY |}; {| c_id := 4; c_file := 8; c_node := 3; c_has := HY; c_wants := WY |} ]%N.
Lemma example_post_add :
  map c_wants (fst (post_add ex_groups ex_rules 1 7 ex_copies [])) = [WY; WY; WN; WY] /\
  snd (post_add ex_groups ex_rules 1 7 ex_copies []) = [].
Proof. vm_compute. split; reflexivity. Qed.
