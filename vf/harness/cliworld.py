"""Random data indexes (from a JSON-able spec, so they can be rebuilt identically) and CLI invocations."""
from __future__ import annotations

import datetime
import importlib
import json
import pathlib

import click
from click.testing import CliRunner

from vf.harness import world as w

COMMANDS = {
    "acq create": ("acq.create", "create"), "file clean": ("file.clean", "clean"), "file create": ("file.create", "create"),
    "file import": ("file.import_", "import_"), "file modify": ("file.modify", "modify"), "file state": ("file.state", "state"),
    "file sync": ("file.sync", "sync"), "file verify": ("file.verify", "verify"), "group autosync": ("group.autosync", "autosync"),
    "group create": ("group.create", "create"), "group modify": ("group.modify", "modify"), "group rename": ("group.rename", "rename"),
    "group sync": ("group.sync", "sync"), "node activate": ("node.activate", "activate"), "node autoclean": ("node.autoclean", "autoclean"),
    "node clean": ("node.clean", "clean"), "node create": ("node.create", "create"), "node deactivate": ("node.deactivate", "deactivate"),
    "node init": ("node.init", "init"), "node modify": ("node.modify", "modify"), "node rename": ("node.rename", "rename"),
    "node scan": ("node.scan", "scan"), "node sync": ("node.sync", "sync"), "node verify": ("node.verify", "verify"),
}


def command(name) -> click.Command:
    mod, attr = COMMANDS[name]
    return getattr(importlib.import_module("alpenhorn.cli." + mod), attr)


# ---- world specs -------------------------------------------------------------------------------------------------
def gen_spec(rng, nfiles=None):
    ng = rng.choice([1, 2, 3, 3, 4, 4])
    groups = [f"G{i}" for i in range(1, ng + 1)]
    nodes = []
    for i in range(1, rng.randint(2, 5) + 1):
        nodes.append({"name": f"N{i}", "group": rng.choice(groups), "stype": rng.choice("AAFFT"), "host": rng.choice(["h1", "h2"]), "active": rng.random() < 0.8})
    acqs = [f"acq{i}" for i in range(1, rng.randint(1, 3) + 1)]
    files = []
    nf = nfiles if nfiles is not None else rng.randint(1, 7)
    for i in range(1, nf + 1):
        files.append({"acq": rng.choice(acqs), "name": f"f{i}", "size": rng.choice([None, 0, 100, 2 ** 29, 2 ** 30, 3 * 2 ** 29]),
                      "reg_days_ago": rng.choice([None, -5, -1, 0, 1, 2, 3, 4, 10])})
    copies = []
    for fi in range(len(files)):
        for n in nodes:
            if rng.random() < 0.6:
                copies.append({"file": fi, "node": n["name"], "has": rng.choice("YYYYMXN"), "wants": rng.choice("YYYMN")})
    reqs = []
    for _ in range(rng.randint(0, 5)):
        st = rng.choice(["pending", "pending", "completed", "cancelled"])
        reqs.append({"file": rng.randrange(len(files)), "from": rng.choice(nodes)["name"], "to": rng.choice(groups), "state": st})
    rules = []
    seen = set()
    for _ in range(rng.randint(0, 3)):
        a, b = rng.choice(nodes)["name"], rng.choice(groups)
        if (a, b) not in seen:
            seen.add((a, b))
            rules.append({"from": a, "to": b, "sync": rng.random() < 0.5, "clean": rng.random() < 0.5})
    ireqs = [{"node": rng.choice(nodes)["name"], "path": "acq1/x", "done": rng.random() < 0.5} for _ in range(rng.randint(0, 1))]
    return {"groups": groups, "nodes": nodes, "acqs": acqs, "files": files, "copies": copies, "reqs": reqs, "rules": rules, "ireqs": ireqs}


NOW = datetime.datetime(2026, 9, 30, 12, 0, 0)


def build(spec, base: pathlib.Path | None = None):
    """create the index described by spec in a fresh database; returns the peewee database"""
    sdb = w.fresh_db()
    g = {name: w.mkgroup(name) for name in spec["groups"]}
    n = {}
    for nd in spec["nodes"]:
        root = str(base / nd["name"]) if base is not None else f"/nonexistent/{nd['name']}"
        if base is not None:
            (base / nd["name"]).mkdir(parents=True, exist_ok=True)
        n[nd["name"]] = w.StorageNode.create(name=nd["name"], group=g[nd["group"]], root=root, host=nd["host"], active=nd["active"], storage_type=nd["stype"])
    a = {name: w.mkacq(name) for name in spec["acqs"]}
    f = []
    for fl in spec["files"]:
        days = 0 if fl["reg_days_ago"] is None else fl["reg_days_ago"]
        reg = w.pw.utcnow() - datetime.timedelta(days=days, minutes=1 if days >= 0 else -1)
        f.append(w.ArchiveFile.create(acq=a[fl["acq"]], name=fl["name"], size_b=fl["size"], md5sum="d41d8cd98f00b204e9800998ecf8427e", registered=reg))
    for c in spec["copies"]:
        w.mkcopy(n[c["node"]], f[c["file"]], c["has"], c["wants"])
    for r in spec["reqs"]:
        w.ArchiveFileCopyRequest.create(file=f[r["file"]], node_from=n[r["from"]], group_to=g[r["to"]], completed=r["state"] == "completed", cancelled=r["state"] == "cancelled")
    for r in spec["rules"]:
        w.StorageTransferAction.create(node_from=n[r["from"]], group_to=g[r["to"]], autosync=r["sync"], autoclean=r["clean"])
    for r in spec["ireqs"]:
        w.ArchiveFileImportRequest.create(node=n[r["node"]], path=r["path"], recurse=False, register=True, completed=r["done"])
    return sdb


def full_dump():
    d = w.dump_index()
    d["file"] = sorted((f.id, f.acq_id, f.name, f.size_b, f.md5sum) for f in w.ArchiveFile.select())
    d["node"] = sorted((n.id, n.name, n.group_id, n.host, bool(n.active), n.storage_type, n.root, n.address, n.username, n.auto_import, n.auto_verify,
                        n.max_total_gb, n.min_avail_gb, n.notes, n.io_class, n.io_config) for n in w.StorageNode.select())
    d["group"] = sorted((g.id, g.name, g.notes, g.io_class, g.io_config) for g in w.StorageGroup.select())
    d["copy"] = sorted((c.id, c.file_id, c.node_id, c.has_file, c.wants_file, c.ready, c.size_b) for c in w.ArchiveFileCopy.select())
    d["ireq"] = sorted((r.id, r.node_id, r.path, bool(r.recurse), bool(r.register), bool(r.completed)) for r in w.ArchiveFileImportRequest.select())
    return json.loads(json.dumps(d))


# ---- invocations ---------------------------------------------------------------------------------------------------
def gen_value(rng, pname, spec, ptype):
    node_names = [n["name"] for n in spec["nodes"]]
    paths = [f"{f['acq']}/{f['name']}" for f in spec["files"]]
    bad = rng.random() < 0.06
    if pname in ("name", "node_name", "node", "from_"):
        return "Nope" if bad else rng.choice(node_names)
    if pname in ("group_name", "group", "to", "target"):
        return "Gnope" if bad else rng.choice(spec["groups"])
    if pname in ("acq", "acq_name"):
        return "acqnope" if bad else rng.choice(spec["acqs"])
    if pname == "path":
        return rng.choice(["nope/f", "/abs/f", "x"]) if bad else rng.choice(paths)
    if pname == "new_name":
        return rng.choice(node_names + spec["groups"] + ["Fresh1", "Fresh2"])
    if pname == "md5":
        return rng.choice(["0123456789abcdef0123456789abcdef", "0123456789ABCDEF0123456789ABCDEF", "xyz", ""])
    if pname == "size":
        return rng.choice([0, 5, 77, -1] if ptype == "integer" else [0.5, 1.0, 2.5, -1.0, 0.0])
    if pname == "days":
        return rng.choice([1, 2, 3, 7, 0, -2])
    if pname == "set_":
        return rng.choice(["healthy", "corrupt", "suspect", "missing", "removed", "released", "bogus", "Present", "Y", "N"])
    if pname in ("io_config",):
        return rng.choice(['{"a": 1}', "{}", "notjson", '[1]'])
    if pname in ("io_var",):
        return rng.choice(["a=1", "b=", "c", 'd="x"'])
    if pname in ("io_class",):
        return rng.choice(["Default", "Transport", "Polling"])
    if pname in ("auto_verify",):
        return rng.choice([0, 3, -1])
    if pname in ("max_total", "min_avail"):
        return rng.choice([0.0, 1.5, 10.0, -3.0])
    if pname in ("host", "address", "username", "notes", "root", "prefix"):
        return rng.choice(["h1", "h9", "", "/some/where", "text"])
    return "x"


CCU = {"node clean", "node verify", "group sync", "node sync"}


def gen_node_create(rng, spec):
    """mostly-valid `node create`: exactly one of --create-group / --group, at most one role, sane numbers; --init often"""
    name = rng.choice(["Nnew", "Nnew", "Nnew", "Nother", spec["nodes"][0]["name"] if spec["nodes"] else "N1"])
    args = [name]
    r = rng.random()
    if r < 0.45:
        args.append("--create-group")
    elif r < 0.9 and spec["groups"]:
        args.append(f"--group={rng.choice(spec['groups'])}")
    elif r < 0.95:
        args += ["--create-group", f"--group={spec['groups'][0]}"] if spec["groups"] else []
    if rng.random() < 0.6:
        args.append("--init")
    if rng.random() < 0.5:
        args.append(rng.choice(["--archive", "--field", "--transport"]))
    if rng.random() < 0.5:
        args.append(f"--root=/data/{name}")
    if rng.random() < 0.4:
        args.append(f"--host={rng.choice(['h1', 'h2'])}")
    if rng.random() < 0.3:
        args.append("--activate")
    if rng.random() < 0.2:
        args.append(f"--max-total={rng.choice([5, 0.5, 0, -1])}")
    if rng.random() < 0.2:
        args.append(f"--auto-verify={rng.choice([0, 3, -2])}")
    return args


def gen_invocation(rng, cmdname, spec, base: pathlib.Path | None, mode=None):
    cmd = command(cmdname)
    args, extra = [], {}
    if cmdname == "node create" and rng.random() < 0.8:
        return gen_node_create(rng, spec), {"mode": None}
    if cmdname in CCU and mode is None:
        mode = rng.choice(["force", "force", "check", "prompt", "prompt", "stdin", "stdin-force"])
    extra["mode"] = mode
    node_names = [n["name"] for n in spec["nodes"]]
    for p in cmd.params:
        if isinstance(p, click.Argument):
            if not p.required and rng.random() < 0.3:
                continue
            if cmdname == "file create" and p.name == "name":
                args.append(rng.choice(["newfile", "sub/newfile", "f1", "../x", ""]))
            elif cmdname == "acq create":
                args.append(rng.choice(["newacq", "acq1", "a/b", "/abs", ""]))
            elif cmdname in ("group create", "node create") and p.name in ("group_name", "node_name"):
                args.append(rng.choice(["Gnew", "Nnew", "G1", "N1"]))
            elif cmdname == "node scan" and p.name == "path":
                args.append(rng.choice(["acq1", "acq1/f1", ".", "/abs", "../out"]))
            elif cmdname == "file import" and p.name == "path":
                args.append(rng.choice(["acq1/f1", "new/file", "/abs/f"]))
            else:
                args.append(str(gen_value(rng, p.name, spec, None)))
            continue
        prob = 0.3
        if p.name in ("force",):
            if cmdname in CCU:
                if mode in ("force", "stdin-force"):
                    args.append("--force")
            elif rng.random() < 0.4:
                args.append("--force")
            continue
        if p.name == "check":
            if mode == "check":
                args.append(p.opts[0])
            continue
        if p.name == "file_list":
            r = rng.random()
            if mode in ("stdin", "stdin-force"):
                args.append("--file-list=-")
                extra["file_list"] = "-"
            elif r < 0.25 and base is not None:
                paths = [f"{f['acq']}/{f['name']}" for f in spec["files"]]
                k = rng.choice([0, 0, 1, 2, 3])
                lines = rng.sample(paths, min(k, len(paths)))
                if rng.random() < 0.3:
                    lines.insert(0, "# comment")
                if rng.random() < 0.1:
                    lines.append("nope/nothere")
                fl = base / f"list{rng.getrandbits(24)}.txt"
                fl.write_text("".join(l + "\n" for l in lines))
                args.append(f"--file-list={fl}")
                extra["file_list"] = lines
            continue
        if rng.random() > prob:
            continue
        if p.is_flag:
            args.append(p.opts[-1] if p.opts[-1].startswith("--") else p.opts[0])
        else:
            opt = [o for o in p.opts if o.startswith("--")] or p.opts
            for _ in range(rng.choice([1, 1, 2]) if p.multiple else 1):
                args.append(f"{opt[0]}={gen_value(rng, p.name, spec, p.type.name)}")
    if cmdname in CCU and rng.random() < 0.85:
        args = repair(rng, cmdname, cmd, args)
    return args, extra


def repair(rng, cmdname, cmd, args):
    """drop flag combinations the usage checks reject (a few are kept on purpose by the caller's coin)"""
    def has(x):
        return any(a == x or a.startswith(x + "=") for a in args)

    def drop(x):
        return [a for a in args if not (a == x or a.startswith(x + "="))]

    if cmdname == "node clean":
        if has("--cancel"):
            args = drop("--now")
            args = drop("--size")
        args = [a for a in args if not (a.startswith("--days=") and int(a.split("=")[1]) <= 0)]
        args = [a for a in args if not (a.startswith("--size=") and float(a.split("=")[1]) <= 0)]
    elif cmdname == "node verify":
        if has("--cancel"):
            keep = [f for f in ("--corrupt", "--healthy", "--missing") if has(f)]
            for f in keep[1:]:
                args = drop(f)
    else:  # group sync / node sync: two positionals, the second optional with --all
        npos = len([a for a in args if not a.startswith("-")])
        if has("--all"):
            if not has("--cancel"):
                args.append("--cancel")
            if npos >= 2:
                pos = [a for a in args if not a.startswith("-")]
                args.remove(pos[1])
        elif npos < 2:
            args += ["--all"] + ([] if has("--cancel") else ["--cancel"])
        if has("--cancel"):
            args = drop("--target")
    return args


def invoke(cmdname, args, input_=None):
    import fileinput

    fileinput.close()  # a ClickException raised inside files_from_file's loop leaves the module-global reader open
    r = CliRunner().invoke(command(cmdname), args, input=input_, catch_exceptions=True)
    exc = r.exception if (r.exception is not None and not isinstance(r.exception, SystemExit)) else None
    return r.exit_code, r.output, exc
