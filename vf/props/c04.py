"""C04 — import: decisions per path, request vetting, scans over real trees, watchdog events, two concurrent importers."""
import ast
import hashlib
import os
import pathlib
import shutil

from vf import core
from vf.core import cbool, clist, cn, copt, cstr, ctup
from vf.translate import core as T
from vf.harness import daemon, monitors, sched
from vf.harness import world as w

TRUSTED = [
    "Coq 8.16.1 kernel + VM; no native_compute",
    "translator vf/translate for guards of _import_file / update_import and the exact sequence of their tests",
    "detector contract (hypothesis): the import-detect extension returns None or a proper ancestor of the path; the harness installs a scripted detector",
    "statement atomicity and the unique indexes of sqlite (the concurrency theorem's step relation); two real _import_file runs are interleaved at execute_sql granularity by the deterministic scheduler",
    "modelled, not verified: watchdog delivery (events are synthesised), the HSM ready_path loop (always ready on Default nodes)",
]
RULE = ("single import requests over path kinds (regular, nested, dot-file, symlink, directory, FIFO, locked, transfer artefact, through a symlinked directory, missing) x detector answers "
        "(first component, nested acquisition, None, non-canonical names) x register flag x pre-existing records (acquisition, file, copy in every state); request vetting (absolute, marker, "
        "non-canonical, scans in and out of tree, symlink loops); scans of random trees compared with a walk of the real tree + hashlib; synthetic watchdog events; all / sampled statement "
        "interleavings of two real importers; non-trivial = a task ran; distinct by scenario")

HAS = {"Y": "HY", "M": "HM", "X": "HX", "N": "HN"}
WANTS = {"Y": "WY", "M": "WM", "N": "WN"}


def gen(ctx):
    aut = T.parse(core.REPO / "alpenhorn/daemon/auto_import.py")
    upd = T.parse(core.REPO / "alpenhorn/daemon/update.py")
    expect = {
        (aut, "_import_file"): ["fullpath.is_symlink() or not fullpath.is_file()", "fullpath.resolve() != root.joinpath(path)", "path.name[0] == '.'",
                                "any((part.startswith('.alpentemp') for part in path.parts[:-1]))", "not node.io.ready_path(path)", "node.io.locked(path)", "acq_name is not None",
                                "rejection_reason", "file_name is None or invalid_import_path(str(file_name))", "node.db.named_copy_tracked(acq_name, file_name)", "register", "register",
                                "copy.wants_file == 'Y'", "callable(callback)"],
        (aut, "import_file"): ["path == pathlib.PurePath(node.db.root)", "path.is_absolute()", "pathlib.PurePath(node.db.root).joinpath(path) == pathlib.PurePath(node.db.root).joinpath('ALPENHORN_NODE')"],
        (upd, "UpdateableNode.update_import"): ["path.is_absolute()", "req.path == 'ALPENHORN_NODE'", "req.recurse", "rejection_reason"],
    }
    for (tree, q), want in expect.items():
        got = [ast.unparse(x.test) for x in T.if_tests(T.find_func(tree, q))]
        if got != want:
            raise T.Untranslatable(f"UNTRANSLATABLE: the tests of {q} changed: {got}")
    atoms = {"fullpath.is_symlink()": ("is_symlink", "bool"), "fullpath.is_file()": ("is_file", "bool"), "copy.wants_file": ("copy_wants", "wants"),
             "path.is_absolute()": ("absolute", "bool"), "req.path": ("req_path", "str"), "req.recurse": ("recurse", "bool")}
    d = [
        T.nth_test(aut, "_import_file", 0, {}, "g_not_a_file", ["is_symlink", "is_file"], atoms=atoms),
        T.nth_test(aut, "_import_file", 12, {}, "g_revive_suspect", atoms=atoms),
        T.nth_test(upd, "UpdateableNode.update_import", 0, {}, "g_vet_absolute", atoms=atoms),
        T.nth_test(upd, "UpdateableNode.update_import", 1, {}, "g_vet_marker", atoms=atoms),
        T.nth_test(upd, "UpdateableNode.update_import", 2, {}, "g_vet_recurse", atoms=atoms),
    ]
    src = ast.unparse(T.find_func(aut, "_import_file"))
    order = [src.find(s) for s in ("named_copy_tracked", "ArchiveAcq.get(", "ArchiveAcq.create(", "ArchiveFile.get(", "node.io.md5(", "ArchiveFile.create(", "ArchiveFileCopy.get(", "ArchiveFileCopy.create(",
                                   "import_request_done(req, 'success')", "ioutil.post_add(")]
    if -1 in order or order != sorted(order):
        raise T.Untranslatable(f"UNTRANSLATABLE: _import_file no longer proceeds tracked? -> acq -> file -> copy -> done -> rules: {order}")
    if src.count("except pw.IntegrityError") != 3:
        raise T.Untranslatable("UNTRANSLATABLE: _import_file must handle IntegrityError on each of its three INSERTs")
    fw = (core.REPO / "alpenhorn/io/default.py").read_text()
    if "entry.is_dir(follow_symlinks=False)" not in fw or "entry.is_file() and not entry.is_symlink()" not in fw:
        raise T.Untranslatable("UNTRANSLATABLE: file_walk's symlink tests changed")
    sc = ast.unparse(T.find_func(aut, "scan"))
    for frag in ("node.db.get_all_files(present=True, corrupt=True, unknown=True)", "if file in already_imported_files:", "import_file(node, queue, file, register, None)"):
        if frag not in sc:
            raise T.Untranslatable(f"UNTRANSLATABLE: scan no longer contains `{frag}`")
    # the watchdog handler: dot-file and lock-file tests, the three event guards and what each hands to import_file
    rf = "RegisterFile."
    watoms = {"basename[0]": ("first_char", "str"), "path[-5:]": ("last5", "str"), "self._is_dotfile(path)": ("is_dot", "bool"), "event.is_directory": ("is_dir", "bool"),
              "self._is_dotfile(event.src_path)": ("dot_src", "bool"), "self._is_dotfile(event.dest_path)": ("dot_dest", "bool"), "self._is_lock_file(event.src_path)": ("lock_src", "bool")}
    d += [
        T.return_expr(aut, rf + "_is_dotfile", {}, "g_is_dotfile", ["first_char"], atoms=watoms),
        T.return_expr(aut, rf + "_is_lock_file", {}, "g_is_lock_file", ["last5", "is_dot"], atoms=watoms),
        T.nth_test(aut, rf + "on_created", 0, {}, "g_on_created", ["is_dir", "dot_src"], atoms=watoms, expect_count=1),
        T.nth_test(aut, rf + "on_moved", 0, {}, "g_on_moved", ["is_dir", "dot_dest"], atoms=watoms, expect_count=1),
        T.nth_test(aut, rf + "on_deleted", 0, {}, "g_on_deleted", ["is_dir", "lock_src"], atoms=watoms, expect_count=1),
    ]
    for fn_, frags in (("_is_dotfile", ["basename = pathlib.PurePath(path).name"]),
                       ("on_created", ["import_file(self.node, self.queue, pathlib.PurePath(event.src_path), True, None)"]),
                       ("on_moved", ["import_file(self.node, self.queue, pathlib.PurePath(event.dest_path), True, None)"]),
                       ("on_deleted", ["path = pathlib.Path(event.src_path)", "import_file(self.node, self.queue, path.with_name(path.name[1:-5]), True, None)"])):
        txt = ast.unparse(T.find_func(aut, rf + fn_))
        for frag in frags:
            if frag not in txt:
                raise T.Untranslatable(f"UNTRANSLATABLE: RegisterFile.{fn_} no longer contains `{frag}`")
    lk = ast.unparse(T.find_func(T.parse(core.REPO / "alpenhorn/io/default.py"), "DefaultNodeIO.locked"))
    if "return path.with_name('.' + path.name + '.lock').exists()" not in lk:
        raise T.Untranslatable("UNTRANSLATABLE: DefaultNodeIO.locked no longer tests path.with_name('.' + path.name + '.lock')")
    return {"Gen_import": T.HEADER + "\n".join(d) + "\n"}


def proofs(ctx):
    try:
        files = gen(ctx)
    except T.Untranslatable as e:
        ctx.broke("translator", "auto_import / update_import", str(e))
        files = None
    if files:
        core.check_tie(ctx, files, ["Tie_C04"])
    core.check_property_file(ctx, "C04.v")


# ---- scripted detector -----------------------------------------------------------------------------------------------
DETECT = {"map": {}}


def detector(path, node):
    k = str(path)
    if k in DETECT["map"]:
        return DETECT["map"][k], None
    return w.detect(path, node)


def install_detector():
    w.extensions._id_ext = [detector]


# ---- family A: one import request per case ----------------------------------------------------------------------------------
KINDS = ["regular", "regular", "nested", "dot", "symlink", "dir", "fifo", "locked", "temp", "via_symlink", "missing", "root_file"]
DET = ["default", "default", "default", "nested_acq", "none", "bad1", "bad2", "bad3", "whole", "sibling", "strprefix"]
ROWS = [None, None, ("N", "Y"), ("N", "N"), ("Y", "Y"), ("X", "Y"), ("Y", "N")]  # (M, *) would be re-verified by the check task of the same pass


def gen_case(rng):
    c = _gen_case(rng)
    if c.get("kind") == "via_symlink":
        c["link_inside"] = rng.random() < 0.5
    return c


def _gen_case(rng):
    return {"kind": rng.choice(KINDS), "det": rng.choice(DET), "register": rng.random() < 0.75, "acq_known": rng.random() < 0.5, "file_known": rng.random() < 0.4,
            "copy": rng.choice(ROWS), "vet": rng.choice([None, None, None, None, "absolute", "marker", "noncanon", "scan_ok", "scan_missing", "scan_out", "scan_loop"])}


def run_case(ctx, base, case):
    spec = {"groups": [{"name": "g"}], "nodes": [{"name": "n", "group": "g", "stype": "F", "host": "h1"}], "acqs": [], "files": [], "copies": []}
    sim = daemon.Sim(base, spec)
    install_detector()
    DETECT["map"] = {}
    rp = {"family": "import", "case": case}
    mon = monitors.Monitors(sim, ctx, rp)
    done_log = []
    from alpenhorn.daemon import auto_import as AI

    orig_done = AI.import_request_done

    def logged_done(req, result):
        if req:
            done_log.append(result)
        return orig_done(req, result)

    AI.import_request_done = logged_done
    tasks_run = []
    from alpenhorn.scheduler.task import Task

    prev_call = Task.__call__

    def call(task):
        tasks_run.append(str(task))
        return prev_call(task)

    Task.__call__ = call
    try:
        node = sim.nodes["n"]
        root = pathlib.Path(node.root)
        kind = case["kind"]
        acq, name = "acq", {"nested": "sub/deep/f", "dot": ".hidden", "temp": ".alpentempq1/f", "via_symlink": "ldir/precious", "root_file": None}.get(kind, "f")
        if kind == "locked":
            name = "f"
        if case.get("name") and kind == "regular":
            name = case["name"]
        rel = f"{acq}/{name}" if name else "toplevel"
        full = root / rel
        content = w.content_of(42, 23)
        if kind in ("regular", "nested", "dot", "locked", "temp", "root_file"):
            full.parent.mkdir(parents=True, exist_ok=True)
            full.write_bytes(content)
            if kind == "locked":
                (full.parent / ".f.lock").write_text("")
        elif kind == "symlink":
            full.parent.mkdir(parents=True, exist_ok=True)
            os.symlink(sim.base / "outside" / "precious", full)
        elif kind == "dir":
            full.mkdir(parents=True)
        elif kind == "fifo":
            full.parent.mkdir(parents=True, exist_ok=True)
            os.mkfifo(full)
        elif kind == "via_symlink":
            (root / acq).mkdir(parents=True, exist_ok=True)
            if case.get("link_inside"):
                # the symlinked directory points to a directory INSIDE the node tree: the path is an alias of a real file, still not imported
                (root / "real").mkdir(exist_ok=True)
                (root / "real" / "precious").write_bytes(content)
                os.symlink(root / "real", root / acq / "ldir")
            else:
                os.symlink(sim.base / "outside", root / acq / "ldir")
        # detector
        det = case["det"]
        acq_name = acq
        if kind == "root_file":
            detected = None
        elif det == "default":
            detected = acq
        elif det == "nested_acq" and kind == "nested":
            detected = "acq/sub"
            DETECT["map"][rel] = detected
        elif det == "none":
            detected = None
            DETECT["map"][rel] = None
        elif det.startswith("bad") and kind in ("regular", "locked"):
            detected = {"bad1": "acq/../acq", "bad2": "acq//", "bad3": "./acq"}[det]
            DETECT["map"][rel] = detected
        elif det in ("whole", "sibling", "strprefix") and kind in ("regular", "nested", "locked"):
            # canonical names that are not a proper parent of the path: the path itself (file name "."), another directory, a string prefix
            detected = {"whole": rel, "sibling": "elsewhere", "strprefix": acq[:-1]}[det]
            DETECT["map"][rel] = detected
        else:
            detected = acq
        if detected and not w.util.invalid_import_path(detected) if hasattr(w, "util") else False:
            pass
        fname = None
        if detected and not __import__("alpenhorn.common.util", fromlist=["x"]).invalid_import_path(detected):
            try:
                fname = str(pathlib.PurePath(rel).relative_to(detected))
                acq_name = detected
                if fname == ".":
                    fname = None
            except ValueError:
                fname = None
        # pre-existing records
        acq_row = file_row = None
        crow = None
        if fname is not None:
            if case["acq_known"] or case["file_known"] or case["copy"]:
                acq_row = w.mkacq(acq_name)
            if case["file_known"] or case["copy"]:
                file_row = w.mkfile(acq_row, fname, content)
            if case["copy"]:
                crow = case["copy"]
                w.mkcopy(node, file_row, crow[0], crow[1])
        vet = case["vet"]
        req_path, recurse = rel, False
        if vet == "absolute":
            req_path = "/" + rel
        elif vet == "marker":
            req_path = "ALPENHORN_NODE"
        elif vet == "noncanon":
            req_path = ctx.rng.choice([rel.replace("/", "//", 1), rel.replace("/", "/./", 1), rel + "/", "./" + rel])
        elif vet == "scan_ok":
            req_path, recurse = acq, True
            (root / acq).mkdir(parents=True, exist_ok=True)
        elif vet == "scan_missing":
            req_path, recurse = "nothere", True
        elif vet == "scan_out":
            os.symlink(sim.base / "outside", root / "escape")
            req_path, recurse = "escape", True
        elif vet == "scan_loop":
            (root / acq).mkdir(parents=True, exist_ok=True)
            os.symlink(root / acq, root / acq / "loop")
            req_path, recurse = acq, True
        ireq = w.ArchiveFileImportRequest.create(node=node, path=req_path, recurse=recurse, register=case["register"], completed=False)
        before_counts = (w.ArchiveAcq.select().count(), w.ArchiveFile.select().count())
        copies_before = sorted((c.id, c.has_file, c.wants_file) for c in w.ArchiveFileCopy.select())
        res = sim.iterate("h1")
        if res["error"]:
            ctx.fail("C04:daemon-died", f"the daemon died importing {req_path!r}: {res['error'][:300]}", rp)
        res2 = sim.iterate("h1")
        after_counts = (w.ArchiveAcq.select().count(), w.ArchiveFile.select().count())
        done = bool(w.ArchiveFileImportRequest.get(id=ireq.id).completed)
        cr_after = None
        if fname is not None:
            a = w.ArchiveAcq.get_or_none(name=acq_name)
            f = a and w.ArchiveFile.get_or_none(acq=a, name=fname)
            c = f and w.ArchiveFileCopy.get_or_none(file=f, node=node)
            if c:
                # the second pass may already have verified a suspect copy
                cr_after = (c.has_file, c.wants_file)
                if crow and crow[0] == "N" and crow[1] == "Y" and cr_after == ("Y", "Y"):
                    cr_after = ("M", "Y")
                # the monitor: what is registered is what is on disk
                if f and (after_counts[1] > before_counts[1]):
                    if f.size_b != len(content) or f.md5sum != hashlib.md5(content).hexdigest():
                        ctx.fail("C04:wrong-registration", f"{rel}: registered size/md5 {f.size_b}/{f.md5sum} differ from the file on disk", rp)
        ncopies = w.ArchiveFileCopy.select().where(w.ArchiveFileCopy.node == node).count()
        never = kind in ("dot", "symlink", "dir", "fifo", "temp", "via_symlink", "missing", "root_file") or detected is None or fname is None
        if vet in (None,) and never and (after_counts != before_counts or (cr_after or None) != (tuple(crow) if crow else None)):
            ctx.fail("C04:imported-forbidden", f"{kind} path {rel!r} (detector -> {detected!r}) changed the index: acq/file counts {before_counts}->{after_counts}, copy {crow}->{cr_after}", rp)
        if vet in ("absolute", "marker", "noncanon", "scan_missing", "scan_out"):
            copies_after = sorted((c.id, c.has_file, c.wants_file) for c in w.ArchiveFileCopy.select())
            crow_checked = [(i, "Y" if (h, wn) == ("M", "Y") else h, wn) for (i, h, wn) in copies_before]  # a suspect copy may have been verified meanwhile
            if after_counts != before_counts or len(copies_after) != len(copies_before) or any(a[2] != b[2] or (a[1] != b[1] and b[1] != "M") for a, b in zip(copies_after, copies_before)):
                ctx.fail("C04:imported-forbidden", f"the import request for {req_path!r} ({vet}) must be refused, but the index changed: acq/file counts {before_counts}->{after_counts}, copies {copies_before}->{copies_after}", rp)
        if vet is None and kind in ("regular", "nested") and detected is not None and fname is not None and case["register"] and not (crow and crow[0] != "N") and cr_after is None:
            ctx.fail("C04:not-imported", f"the regular file {rel!r} (detector -> {detected!r}, registration enabled) was not imported: no copy was recorded (request completed={done})", rp)
        if vet is None and kind == "locked" and done:
            ctx.fail("C04:locked-completed", "the import request of a locked file was completed", rp)
        if not case["register"] and after_counts != before_counts:
            ctx.fail("C04:registered-although-disabled", f"registration disabled but acq/file counts went {before_counts}->{after_counts}", rp)
        outside = sim.outside()
        if outside != [("precious", "file", hashlib.md5(b"do not touch").hexdigest())]:
            ctx.fail("C06:outside-roots", f"files outside the node root changed: {outside}", rp)
        # ---- terms ----
        terms = {}
        if vet is None:
            fx = (f"(FX {cbool(kind == 'symlink')} {cbool(kind in ('regular', 'nested', 'dot', 'locked', 'temp', 'root_file', 'via_symlink'))} {cbool(kind == 'dot')} {cbool(kind == 'temp')} "
                  f"{cbool(kind == 'via_symlink')} {cbool(kind == 'locked')} {cstr(rel)} {copt(detected, cstr, 'str')} {cbool(case['register'])} {cbool(acq_row is not None)} {cbool(file_row is not None)} "
                  f"{copt(crow, lambda r: ctup(HAS[r[0]], WANTS[r[1]]), '(has * wants)')})")
            obs = ctup(cbool(done), cbool(after_counts[0] > before_counts[0]), cbool(after_counts[1] > before_counts[1]), copt(cr_after, lambda r: ctup(HAS[r[0]], WANTS[r[1]]), "(has * wants)"))
            terms["i"] = ctup(fx, obs)
        else:
            ran_scan = any(t.startswith("Scan") for t in tasks_run)
            ran_imp = any(t.startswith("Import") for t in tasks_run) and not ran_scan
            first = done_log[0] if done_log else None
            o = 2 if ran_scan else 3 if ran_imp else 1 if first == "duplicate" else 0
            resolves = vet in ("scan_ok", "scan_out", "scan_loop")
            in_tree = vet in ("scan_ok", "scan_loop")
            terms["v"] = ctup(cbool(vet == "absolute"), cbool(vet == "marker"), cbool(recurse), cbool(resolves), cbool(in_tree), cstr(req_path), cn(o))
        return terms, bool(tasks_run)
    finally:
        Task.__call__ = prev_call
        AI.import_request_done = orig_done
        sim.shutdown()


# ---- family B: scans of random trees -------------------------------------------------------------------------------------------
def run_scan(ctx, base, rng):
    spec = {"groups": [{"name": "g"}], "nodes": [{"name": "n", "group": "g", "stype": "F", "host": "h1"}], "acqs": [], "files": [], "copies": []}
    sim = daemon.Sim(base, spec)
    install_detector()
    DETECT["map"] = {}
    rp = {"family": "scan"}
    mon = monitors.Monitors(sim, ctx, rp)
    try:
        node = sim.nodes["n"]
        root = pathlib.Path(node.root)
        made = []
        for a in ("acq1", "acq2"):
            for j in range(rng.randint(0, 4)):
                kind = rng.choice(["f", "f", "sub/f", ".dot", ".alpentempzz/f", "lk", "sl", "d/e/f", ".hid/f", "ph"])
                rel = f"{a}/" + kind.replace("f", f"f{j}") if "f" in kind else f"{a}/{kind}{j}"
                p = root / rel
                p.parent.mkdir(parents=True, exist_ok=True)
                if kind == "sl":
                    if not p.exists():
                        os.symlink(sim.base / "outside" / "precious", p)
                elif kind == "lk":
                    p.write_bytes(w.content_of(j, 5))
                    (p.parent / f".{p.name}.lock").write_text("")
                elif kind == "ph":
                    (p.parent / f".{p.name}.placeholder").write_text("")
                else:
                    p.write_bytes(w.content_of(hash(rel) % 1000, rng.choice([0, 3, 40])))
                made.append(rel)
        if rng.random() < 0.3:
            (root / "acq1").mkdir(exist_ok=True)
            if not (root / "acq1" / "outlink").exists():
                os.symlink(sim.base / "outside", root / "acq1" / "outlink")
        if rng.random() < 0.2:
            (root / "acq2").mkdir(exist_ok=True)
            if not (root / "acq2" / "loop").exists():
                os.symlink(root / "acq2", root / "acq2" / "loop")
        # some of the importable files are registered already, with a copy record in every state
        pre = {}
        for rel in made:
            p = root / rel
            parts = pathlib.PurePath(rel).parts
            if p.is_symlink() or not p.is_file() or any(x.startswith(".") for x in parts) or (p.parent / f".{p.name}.lock").exists() or rng.random() < 0.55:
                continue
            acq = w.mkacq(parts[0])
            if w.ArchiveFile.get_or_none(acq=acq, name="/".join(parts[1:])) is not None:
                continue
            f = w.mkfile(acq, "/".join(parts[1:]), p.read_bytes())
            st = rng.choice([("N", "N"), ("N", "N"), ("N", "Y"), ("Y", "Y"), ("M", "Y"), ("X", "Y")])
            w.mkcopy(node, f, st[0], st[1], size_b=f.size_b)
            pre[(parts[0], "/".join(parts[1:]))] = st
        rp["preregistered"] = {"/".join(k): v for k, v in pre.items()}
        # a scan may be asked not to register anything new (only files already registered gain a copy)
        register = rng.random() < 0.65
        rp["register"] = register
        (root / "toplevel").write_text("x")
        w.ArchiveFileImportRequest.create(node=node, path=rng.choice([".", "acq1", "acq2"]) if (root / "acq1").exists() and (root / "acq2").exists() else ".", recurse=True, register=register, completed=False)
        scanned = w.ArchiveFileImportRequest.get(id=1).path
        for _ in range(3):
            res = sim.iterate("h1")
            if res["error"]:
                ctx.fail("C04:daemon-died", f"the daemon died scanning: {res['error'][:300]}", rp)
        # reference: walk the real tree
        exp = {}
        top = root if scanned == "." else root / scanned
        for dirpath, dirs, files in os.walk(top, followlinks=False):
            dirs[:] = [d for d in dirs if not os.path.islink(os.path.join(dirpath, d))]
            for fn in files:
                p = pathlib.Path(dirpath, fn)
                rel = p.relative_to(root)
                if p.is_symlink() or not p.is_file() or fn.startswith(".") or any(x.startswith(".alpentemp") for x in rel.parts[:-1]) or len(rel.parts) < 2:
                    continue
                if (p.parent / f".{fn}.lock").exists():
                    continue
                data = p.read_bytes()
                exp[(rel.parts[0], "/".join(rel.parts[1:]))] = (len(data), hashlib.md5(data).hexdigest())
        got = {(f.acq.name, f.name): (f.size_b, f.md5sum) for f in w.ArchiveFile.select()}
        copies = {(c.file.acq.name, c.file.name): (c.has_file, c.wants_file) for c in w.ArchiveFileCopy.select()}
        if not register:
            exp = {k: v for k, v in exp.items() if k in pre}
        # files registered beforehand that lie outside the scanned directory stay as they were
        for k, st in pre.items():
            if k not in exp:
                exp[k] = got.get(k)
        if got != exp:
            ctx.fail("C04:scan-registration", f"scan of {scanned!r}: registered {sorted(got)} but the tree holds {sorted(exp)} importable files (differences: {sorted(set(got) ^ set(exp))[:5]})", rp)
        top_rel = None if scanned == "." else scanned
        for k, v in copies.items():
            inside = top_rel is None or k[0] == top_rel
            st = pre.get(k)
            # every importable file on disk under the scanned directory ends with one present copy; a copy recorded corrupt stays so
            # (the daemon does not re-verify it); outside the scanned directory nothing but the check of suspect copies happens
            want = ("X", "Y") if st == ("X", "Y") else ("Y", "Y") if (inside or st in (("Y", "Y"), ("M", "Y"))) else st
            if v != want:
                ctx.fail("C04:scan-copies", f"scan of {scanned!r}: copy of {'/'.join(k)} is {v}, expected {want} (state before the scan: {st})", rp)
        if set(copies) != set(got):
            ctx.fail("C04:scan-copies", f"scan: copies {copies}", rp)
        if not w.ArchiveFileImportRequest.get(id=1).completed:
            ctx.fail("C04:scan-pending", "the scan request was not completed", rp)
        return len(exp)
    finally:
        sim.shutdown()


# ---- family C: two importers, statement interleavings -----------------------------------------------------------------------------
def run_concurrent(base, pre, choose, decoy=False):
    from alpenhorn.daemon import auto_import as AI
    from alpenhorn.daemon import update as U

    shutil.rmtree(base, ignore_errors=True)
    sdb = w.fresh_db(shared=True)
    install_detector()
    DETECT["map"] = {}
    g = w.mkgroup("g")
    node = w.mknode(base, "n", g, stype="F")
    content = w.content_of(7, 11)
    (pathlib.Path(node.root) / "acq").mkdir()
    (pathlib.Path(node.root) / "acq" / "f").write_bytes(content)
    crow = None
    if decoy:
        # another acquisition already has a file of the same name (registered elsewhere, not on this node)
        w.mkfile(w.mkacq("another"), "f", b"something else")
    if pre in ("acq", "file", "copyNY", "copyNN"):
        a = w.mkacq("acq")
        if pre != "acq":
            f = w.mkfile(a, "f", content)
            if pre.startswith("copy"):
                crow = (pre[4], pre[5])
                w.mkcopy(node, f, crow[0], crow[1])
    queue = w.StepQueue.make()
    unode = U.UpdateableNode(queue, w.StorageNode.get(id=node.id))
    S = sched.Sched(choose)
    orig = sdb.execute_sql

    def execute_sql(sql, params=None, *a, **k):
        if S.cur is not None:
            S.yield_()
        return orig(sql, params, *a, **k)

    sdb.execute_sql = execute_sql
    errors = []

    class StubTask:
        def on_cleanup(self, *a, **k):
            pass

    def importer():
        try:
            gen = AI._import_file(StubTask(), unode, pathlib.PurePath("acq/f"), True, None)
            if gen is not None:
                for _ in gen:
                    pass
        except BaseException as e:  # noqa: BLE001
            errors.append(repr(e))
            raise

    try:
        S.spawn("A", importer)
        S.spawn("B", importer)
        res, stuck = S.run()
    finally:
        del sdb.execute_sql
    counts = (w.ArchiveAcq.select().count() - decoy, w.ArchiveFile.select().count() - decoy, w.ArchiveFileCopy.select().count())
    wrong = [f"{x.file.acq.name}/{x.file.name}" for x in w.ArchiveFileCopy.select() if x.file.acq.name != "acq"]
    if wrong:
        errors.append(f"a copy of {wrong} was recorded on the node, which holds only acq/f")
    c = w.ArchiveFileCopy.get_or_none()
    after = (c.has_file, c.wants_file) if c else None
    nreq = w.ArchiveFileCopyRequest.select().count()
    return crow, after, counts, errors, stuck, S.trace


def explore_concurrent(ctx, base, cap):
    cterms = []
    for pre in ("none", "acq", "file", "copyNY", "copyNN"):
        ex = sched.Explorer()
        n = 0
        rng = ctx.rng
        while not ex.done and n < cap:
            if n < cap // 2:
                chooser = ex.chooser()
            else:
                r2 = __import__("random").Random(rng.getrandbits(32))
                chooser = lambda k, r2=r2: r2.randrange(k)  # noqa: E731
            decoy = n % 2 == 1
            crow, after, counts, errors, stuck, trace = run_concurrent(base, pre, chooser, decoy)
            ctx.count("two-importers")
            ctx.distinct_add(("conc", pre, decoy, tuple(c for c, _ in trace)))
            rp = {"family": "concurrent", "pre": pre, "same_name_in_another_acquisition": decoy, "schedule": [c for c, _ in trace]}
            if errors or stuck:
                ctx.fail("C04:concurrent-abort", f"two importers (pre-state {pre}): exceptions {errors}, stuck {stuck}", rp)
            if counts != (1, 1, 1):
                ctx.fail("C04:concurrent-duplicates", f"two importers (pre-state {pre}) left (acq, file, copy) counts {counts}", rp)
            cterms.append(ctup(copt(crow, lambda r: ctup(HAS[r[0]], WANTS[r[1]]), "(has * wants)"), copt(after, lambda r: ctup(HAS[r[0]], WANTS[r[1]]), "(has * wants)")))
            if n < cap // 2:
                ex.advance(trace)
            n += 1
    return cterms


# ---- family D: watchdog events -------------------------------------------------------------------------------------------------------
def explore_events(ctx, base):
    from alpenhorn.daemon import auto_import as AI
    from alpenhorn.daemon import update as U
    from watchdog.events import FileCreatedEvent, FileMovedEvent, FileDeletedEvent, DirCreatedEvent

    shutil.rmtree(base, ignore_errors=True)
    w.fresh_db()
    install_detector()
    DETECT["map"] = {}
    g = w.mkgroup("g")
    node = w.mknode(base, "n", g, stype="F")
    root = pathlib.Path(node.root)
    (root / "acq").mkdir()
    queue = w.StepQueue.make()
    unode = U.UpdateableNode(queue, w.StorageNode.get(id=node.id))
    h = AI.RegisterFile(unode, queue)
    (root / "acq" / "made").write_bytes(b"1")
    (root / "acq" / "moved").write_bytes(b"22")
    (root / "acq" / "waslocked").write_bytes(b"333")
    (root / "acq" / ".dot").write_bytes(b"4")
    (root / "acq" / "stilllocked").write_bytes(b"5")
    (root / "acq" / ".stilllocked.lock").write_bytes(b"")
    h.on_created(FileCreatedEvent(str(root / "acq" / "made")))
    h.on_created(FileCreatedEvent(str(root / "acq" / "made")))  # duplicate event
    h.on_created(FileCreatedEvent(str(root / "acq" / ".dot")))
    h.on_created(DirCreatedEvent(str(root / "acq")))
    h.on_moved(FileMovedEvent(str(root / "acq" / "tmpname"), str(root / "acq" / "moved")))
    h.on_deleted(FileDeletedEvent(str(root / "acq" / ".waslocked.lock")))
    h.on_created(FileCreatedEvent(str(root / "acq" / "stilllocked")))
    h.on_created(FileCreatedEvent(str(root / "ALPENHORN_NODE")))
    h.on_created(FileCreatedEvent("/somewhere/else/acq/x"))
    exits, aborted = w.drain_with_workers(queue)
    got = sorted(f.name for f in w.ArchiveFile.select())
    ctx.count("watchdog-events", 9)
    ctx.distinct_add(("events",))
    if got != ["made", "moved", "waslocked"] or w.ArchiveFileCopy.select().count() != 3 or aborted:
        ctx.fail("C04:watchdog", f"synthetic watchdog events registered {got} (expected made, moved, waslocked), copies {w.ArchiveFileCopy.select().count()}, abort={aborted}", {"family": "events"})
    ctx.sample({"watchdog_events": "created x2, created dot-file, dir created, moved, lock deleted, created while locked, marker, outside root", "registered": got})


def explore_event_sequences(ctx, base, n):
    """random watchdog event sequences on the real handler: which files end up registered depends only on the final names on disk
    that an event pointed at (the destination of a rename, the file a deleted lock guarded), never on the name a file had before"""
    from alpenhorn.daemon import auto_import as AI
    from alpenhorn.daemon import update as U
    from watchdog.events import DirMovedEvent, FileCreatedEvent, FileDeletedEvent, FileMovedEvent

    rng = ctx.rng
    eterms, ekeep, lterms, lkeep = [], [], [], []
    handed = []
    orig_import = AI.import_file

    def rec_import(node_, queue_, path_, register_, req_):
        handed.append((str(path_), register_, req_))
        return orig_import(node_, queue_, path_, register_, req_)

    def ev_term(ev):
        kind = type(ev).__name__
        d = cbool(ev.is_directory)
        if "Moved" in kind:
            return f"(Moved {d} {cstr(ev.src_path)} {cstr(ev.dest_path)})"
        return f"({'Created' if 'Created' in kind else 'Deleted'} {d} {cstr(ev.src_path)})"

    def fire(h_, method, ev):
        handed.clear()
        AI.import_file = rec_import
        try:
            getattr(h_, method)(ev)
        finally:
            AI.import_file = orig_import
        if len(handed) > 1 or any(r is not True or q is not None for _, r, q in handed):
            ctx.fail("C04:watchdog", f"{method}({ev}) called import_file {handed}", {"family": "event-sequence", "event": repr(ev)})
        eterms.append(ctup(ev_term(ev), copt(handed[0][0] if handed else None, cstr, "str")))
        ekeep.append((method, repr(ev), list(handed)))

    for k in range(n):
        shutil.rmtree(base, ignore_errors=True)
        w.fresh_db()
        install_detector()
        DETECT["map"] = {}
        g = w.mkgroup("g")
        node = w.mknode(base, "n", g, stype="F")
        root = pathlib.Path(node.root)
        (root / "acq" / "sub").mkdir(parents=True)
        queue = w.StepQueue.make()
        unode = U.UpdateableNode(queue, w.StorageNode.get(id=node.id))
        h = AI.RegisterFile(unode, queue)
        expect, log = set(), []
        for j in range(rng.randint(1, 6)):
            d = rng.choice(["acq", "acq/sub"])
            name = f"f{j}"
            kind = rng.choice(["created", "created-dot", "moved-from-dot", "moved-from-plain", "moved-to-dot", "lock-deleted", "lock-deleted-still-locked", "moved-dir", "created-absent"])
            final = root / d / name
            log.append((kind, f"{d}/{name}"))
            if kind == "created":
                final.write_bytes(b"x" * j)
                fire(h, "on_created", FileCreatedEvent(str(final)))
                expect.add(f"{d}/{name}")
            elif kind == "created-dot":
                (root / d / ("." + name)).write_bytes(b"x")
                fire(h, "on_created", FileCreatedEvent(str(root / d / ("." + name))))
            elif kind == "moved-from-dot":
                # how rsync and friends deliver a file: written under a temporary dot-name, then renamed into place
                final.write_bytes(b"y" * j)
                fire(h, "on_moved", FileMovedEvent(str(root / d / f".{name}.Xq3f"), str(final)))
                expect.add(f"{d}/{name}")
            elif kind == "moved-from-plain":
                final.write_bytes(b"z" * j)
                fire(h, "on_moved", FileMovedEvent(str(root / d / (name + ".part")), str(final)))
                expect.add(f"{d}/{name}")
            elif kind == "moved-to-dot":
                (root / d / ("." + name)).write_bytes(b"x")
                fire(h, "on_moved", FileMovedEvent(str(final), str(root / d / ("." + name))))
            elif kind == "lock-deleted":
                final.write_bytes(b"l" * j)
                fire(h, "on_deleted", FileDeletedEvent(str(root / d / f".{name}.lock")))
                expect.add(f"{d}/{name}")
            elif kind == "lock-deleted-still-locked":
                final.write_bytes(b"l")
                (root / d / f".{name}.lock").write_bytes(b"")
                fire(h, "on_created", FileCreatedEvent(str(final)))
            elif kind == "moved-dir":
                (root / d / (name + "dir")).mkdir()
                fire(h, "on_moved", DirMovedEvent(str(root / d / "olddir"), str(root / d / (name + "dir"))))
            else:
                h.on_created(FileCreatedEvent(str(final)))  # the file is gone again before the import runs
        # DefaultNodeIO.locked: which path does it look for beside the file
        for (_, rel_) in log[:2]:
            tested = []
            orig_exists = pathlib.Path.exists

            def rec_exists(self_, *a, **kw):
                tested.append(str(self_))
                return orig_exists(self_, *a, **kw)

            pathlib.Path.exists = rec_exists
            try:
                unode.io.locked(pathlib.PurePath(rel_))
            finally:
                pathlib.Path.exists = orig_exists
            if len(tested) == 1:
                lterms.append(ctup(cstr(str(root / rel_)), cstr(tested[0])))
                lkeep.append((rel_, tested[0]))
            else:
                ctx.fail("C04:watchdog", f"locked({rel_!r}) tested {tested}", {"family": "event-sequence", "locked": rel_})
        exits, aborted = w.drain_with_workers(queue)
        got = {f"{f.acq.name}/{f.name}" for f in w.ArchiveFile.select()}
        ncopies = w.ArchiveFileCopy.select().where(w.ArchiveFileCopy.has_file == "Y").count()
        ctx.count("watchdog-events", len(log))
        ctx.distinct_add(("evseq", tuple(log)))
        if got != expect or ncopies != len(expect) or aborted:
            ctx.fail("C04:watchdog", f"watchdog events {log}: registered {sorted(got)} with {ncopies} present copies, expected {sorted(expect)}; abort={aborted}", {"family": "event-sequence", "events": log})
            break
    bad = core.run_cases(ctx, "events", "Corr.C04", "ecase", "echeck", eterms, shard=400, extra_imports=("Model.Watch",))
    for i in bad[:3]:
        ctx.broke("correspondence", f"watchdog handler: model and implementation differ on {ekeep[i]}")
    bad = core.run_cases(ctx, "lockname", "Corr.C04", "lcase", "lcheck", lterms, shard=400, extra_imports=("Model.Watch",))
    for i in bad[:3]:
        ctx.broke("correspondence", f"lock-file name: model and implementation differ on {lkeep[i]}")


def explore_sizes(ctx, base):
    """the registered length and MD5 are those of the content, for files around the hashing loop's block (32 KiB) and chunk (32 MiB) sizes"""
    from alpenhorn.daemon import auto_import as AI
    from alpenhorn.daemon import update as U

    shutil.rmtree(base, ignore_errors=True)
    w.fresh_db()
    install_detector()
    DETECT["map"] = {}
    g = w.mkgroup("g")
    node = w.mknode(base, "n", g, stype="F")
    root = pathlib.Path(node.root)
    (root / "acq").mkdir()
    queue = w.StepQueue.make()
    unode = U.UpdateableNode(queue, w.StorageNode.get(id=node.id))
    chunk = 1024 * 32768
    sizes = [0, 1, 32767, 32768, 32769, 65536 + 1] + ([chunk + 5] if ctx.quick() else [chunk - 1, chunk, chunk + 5, chunk + 32768, 2 * chunk + 1])
    want = {}
    for i, sz in enumerate(sizes):
        blk = bytes((j * 131 + i) & 0xFF for j in range(4099))
        data = (blk * (sz // len(blk) + 1))[:sz]
        (root / "acq" / f"s{i}").write_bytes(data)
        want[f"s{i}"] = (sz, hashlib.md5(data).hexdigest())
        AI.import_file(unode, queue, pathlib.PurePath("acq") / f"s{i}", True, None)
    exits, aborted = w.drain_with_workers(queue)
    got = {f.name: (f.size_b, f.md5sum) for f in w.ArchiveFile.select()}
    ctx.count("import-sizes", len(sizes))
    ctx.distinct_add(("sizes", tuple(sizes)))
    for name, (sz, md5) in want.items():
        if got.get(name) != (sz, md5):
            ctx.fail("C04:registered-size-digest", f"a {sz}-byte file was registered as {got.get(name)}; its length and MD5 are {(sz, md5)}", {"family": "sizes", "size": sz, "registered": got.get(name)})
    if aborted:
        ctx.fail("C04:registered-size-digest", "the import of plain files aborted the daemon", {"family": "sizes"})
    shutil.rmtree(base, ignore_errors=True)


def explore(ctx):
    base = ctx.tmp() / "sim"
    iterms, vterms, keep = [], [], []
    n = 220 if ctx.quick() else 5000
    ran = 0
    fixed = [{"kind": "via_symlink", "link_inside": li, "det": "default", "register": True, "acq_known": ak, "file_known": False, "copy": None, "vet": None} for li in (True, False) for ak in (False, True)]
    # only the marker at the node root is special: files of that name inside an acquisition are data
    fixed += [{"kind": "regular", "name": nm, "det": "default", "register": True, "acq_known": False, "file_known": False, "copy": None, "vet": None} for nm in ("ALPENHORN_NODE", "sub/ALPENHORN_NODE")]
    for k in range(n + len(fixed)):
        case = fixed[k] if k < len(fixed) else gen_case(ctx.rng)
        terms, r = run_case(ctx, base, case)
        ctx.count("import-request")
        ran += r
        ctx.distinct_add(repr(sorted(case.items(), key=str)))
        if "i" in terms:
            iterms.append(terms["i"])
            keep.append(case)
        if "v" in terms:
            vterms.append((terms["v"], case))
        if k == 0:
            ctx.sample({"import_case": case})
    bad = core.run_cases(ctx, "import", "Corr.C04", "icase", "icheck", iterms, shard=300, extra_imports=("Model.Import",))
    for i in bad[:3]:
        ctx.broke("correspondence", f"import decision: model and implementation differ on {keep[i]}: {iterms[i][-160:]}")
    bad = core.run_cases(ctx, "vet", "Corr.C04", "vcase", "vcheck", [t for t, _ in vterms], shard=300, extra_imports=("Model.Import",))
    for i in bad[:3]:
        ctx.broke("correspondence", f"request vetting: model and implementation differ on {vterms[i][1]}: {vterms[i][0]}")
    total = 0
    for k in range(40 if ctx.quick() else 800):
        total += run_scan(ctx, base, ctx.rng)
        ctx.count("scan")
    ctx.cov["files_imported_by_scans"] = total
    cterms = explore_concurrent(ctx, ctx.tmp() / "conc", 60 if ctx.quick() else 1500)
    bad = core.run_cases(ctx, "conc", "Corr.C04", "ccase", "ccheck", cterms, shard=1000, extra_imports=("Model.Import",))
    for i in bad[:3]:
        ctx.broke("correspondence", f"two importers: final copy row not reachable in the model: {cterms[i]}")
    explore_event_sequences(ctx, ctx.tmp() / "evseq", 40 if ctx.quick() else 1500)
    explore_sizes(ctx, ctx.tmp() / "sizes")
    explore_events(ctx, ctx.tmp() / "ev")


def search(ctx):
    explore(ctx)


def replay(ctx, rp):
    r = rp["replay"]
    if r.get("family") == "import":
        print(run_case(ctx, ctx.tmp() / "sim", r["case"]))
    elif r.get("family") == "concurrent":
        it = iter(r["schedule"])
        print(run_concurrent(ctx.tmp() / "conc", r["pre"], lambda n: next(it, 0))[:5])
    for f in ctx.failing:
        print(f["signature"], f["what"])
    return 1 if ctx.failing else 0
