(* Correspondence for C01: (archive node ids, copy table in id order, batch of copy ids, ids whose unlink fails |
   copy ids unlinked in order, (has, wants) of every copy afterwards) *)
From Coq Require Import List NArith Bool Arith.
From Alp Require Import Base.Str Base.Types Model.Delete.
Import ListNotations.
Definition D (i f n : N) (h : has) (w : wants) : dcopy := {| d_id := i; d_file := f; d_node := n; d_has := h; d_wants := w |}.
Definition memN (x : N) (l : list N) : bool := existsb (N.eqb x) l.
Definition case := (list N * list dcopy * list N * list N * list N * list (has * wants))%type.
Definition check (c : case) : bool :=
  let '(arch, cs, batch_ids, failing, unlinked, after) := c in
  let batch := flat_map (fun i => filter (fun d => N.eqb (d_id d) i) cs) batch_ids in
  let '(cs', effs) := delete_async (fun n => memN n arch) (fun i => memN i failing) batch cs in
  list_eqb N.eqb (map (fun e => d_id (e_copy e)) effs) unlinked
  && list_eqb (fun a b => has_eqb (fst a) (fst b) && wants_eqb (snd a) (snd b)) (map (fun d => (d_has d, d_wants d)) cs') after.
