From Coq Require Import List Arith Bool Lia.
From Alp Require Import Base.Txn Model.Worker.
Import ListNotations.

Section P.
  Variable fault : stmt -> bool.

  Lemma do_cleanup_split dq :
    let '(r, rest, st) := do_cleanup fault dq in
    map cl_id dq = st ++ map cl_id rest /\ (r = false -> rest = []) /\ (r = true -> length rest < length dq).
  Proof.
    induction dq as [|c dq IH]; cbn [do_cleanup]; [repeat split; auto; discriminate|].
    destruct (run_stmts fault (cl_body c)).
    - cbn. repeat split; auto; discriminate.
    - destruct (do_cleanup fault dq) as [[r rest] st]. destruct IH as (A & B & C). cbn [map app].
      repeat split; [f_equal; exact A | exact B | intros E; specialize (C E); cbn; lia].
  Qed.

  Lemma cleanup_loop_all fuel : forall dq, length dq < fuel -> cleanup_loop fault fuel dq = map cl_id dq.
  Proof.
    induction fuel as [|f IH]; intros dq H; [lia|]. cbn [cleanup_loop].
    pose proof (do_cleanup_split dq) as S. destruct (do_cleanup fault dq) as [[r rest] st].
    destruct S as (A & B & C). destruct r.
    - rewrite IH by (specialize (C eq_refl); lia). symmetry; exact A.
    - rewrite (B eq_refl) in A. cbn in A. rewrite app_nil_r in A. symmetry; exact A.
  Qed.

  Lemma run_body_no_other acts : forall dq, no_other acts = true -> fst (run_body fault acts dq) <> OtherExc.
  Proof.
    induction acts as [|a acts IH]; intros dq H; cbn [run_body]; [cbn; discriminate|].
    destruct a as [s|f id b|]; cbn [no_other] in H; [|apply IH, H|discriminate].
    destruct (fault s); [cbn; discriminate | apply IH, H].
  Qed.

  (* Containment: with database faults only (anywhere in the body or in any clean-up, any number of them), a task
     delivery never aborts the daemon, releases its queue slot exactly once, and starts every clean-up registered so
     far exactly once, in deque order — on its final step or on the error path; a yielding step starts none. *)
  Lemma containment requeue final dq0 acts : no_other acts = true ->
    let r := worker_iteration fault requeue final dq0 acts in
    global_abort r = false /\ task_done_calls r = 1 /\
    (requeued_self r = true -> started r = [] /\ left_over r = snd (run_body fault acts dq0) /\ worker_exits r = false) /\
    (requeued_self r = false -> started r = map cl_id (snd (run_body fault acts dq0)) /\ left_over r = []) /\
    (worker_exits r = true -> requeued_copy r = requeue) /\ (worker_exits r = false -> requeued_copy r = false).
  Proof.
    intros Hno. pose proof (run_body_no_other acts dq0 Hno) as Hn.
    unfold worker_iteration. destruct (run_body fault acts dq0) as [r dq]. cbn [fst snd] in *.
    destruct r; [|..|congruence].
    - destruct final.
      + pose proof (do_cleanup_split dq) as S. destruct (do_cleanup fault dq) as [[e rest] st]. destruct S as (A & B & C).
        destruct e; cbn [global_abort task_done_calls requeued_self started left_over worker_exits requeued_copy].
        * repeat split; try discriminate; auto. rewrite cleanup_loop_all by lia. symmetry; exact A.
        * repeat split; try discriminate; auto. rewrite (B eq_refl) in A. cbn in A. rewrite app_nil_r in A. symmetry; exact A.
      + cbn [global_abort task_done_calls requeued_self started left_over worker_exits requeued_copy]. repeat split; try discriminate; auto.
    - cbn [global_abort task_done_calls requeued_self started left_over worker_exits requeued_copy].
      repeat split; try discriminate; auto. apply cleanup_loop_all. lia.
  Qed.

  (* the worker exits (to be replaced) exactly when a database fault was hit *)
  Lemma exits_iff_fault requeue final dq0 acts : no_other acts = true ->
    worker_exits (worker_iteration fault requeue final dq0 acts) = true <->
      fst (run_body fault acts dq0) = DbErr \/
      (fst (run_body fault acts dq0) = NoExc /\ final = true /\ fst (fst (do_cleanup fault (snd (run_body fault acts dq0)))) = true).
  Proof.
    intros Hno. pose proof (run_body_no_other acts dq0 Hno) as Hn.
    unfold worker_iteration. destruct (run_body fault acts dq0) as [r dq]. cbn [fst snd] in *.
    destruct r; [|..|congruence].
    - destruct final.
      + destruct (do_cleanup fault dq) as [[e rest] st]. destruct e; cbn; intuition congruence.
      + cbn. intuition congruence.
    - cbn. intuition congruence.
  Qed.
End P.

(* a clean-up registered by the first action of a body (the space reservation of a pull) is started exactly once
   whatever happens afterwards *)
Lemma first_registration_runs_once fault requeue id body rest : no_other rest = true ->
  (forall f i b, In (Reg f i b) rest -> i <> id) ->
  count_occ Nat.eq_dec (started (worker_iteration fault requeue true [] (Reg true id body :: rest))) id = 1.
Proof.
  intros Hno Hids.
  destruct (containment fault requeue true [] (Reg true id body :: rest) Hno) as (_ & _ & _ & H & _).
  assert (Hs : requeued_self (worker_iteration fault requeue true [] (Reg true id body :: rest)) = false).
  { unfold worker_iteration. destruct (run_body _ _ _) as [[| |] dq]; [|reflexivity|reflexivity].
    destruct (do_cleanup fault dq) as [[[|] ?] ?]; reflexivity. }
  destruct (H Hs) as [-> _]. cbn [run_body].
  assert (G : forall acts dq, (forall f i b, In (Reg f i b) acts -> i <> id) ->
             count_occ Nat.eq_dec (map cl_id (snd (run_body fault acts dq))) id = count_occ Nat.eq_dec (map cl_id dq) id).
  { induction acts as [|a acts IH]; intros dq Hi; [reflexivity|]. cbn [run_body].
    destruct a as [s|f i b|]; [destruct (fault s); [reflexivity | apply IH; intros; eapply Hi; right; eauto] | | reflexivity].
    rewrite IH by (intros; eapply Hi; right; eauto).
    assert (i <> id) by (eapply Hi; left; reflexivity).
    destruct f; [cbn [map cl_id]; rewrite count_occ_cons_neq by assumption; reflexivity|].
    rewrite map_app, count_occ_app. cbn [map cl_id]. rewrite count_occ_cons_neq by assumption. cbn [count_occ]. lia. }
  rewrite G by exact Hids. cbn [map cl_id]. rewrite count_occ_cons_eq by reflexivity. reflexivity.
Qed.

(* ---- transactions ---- *)
Section T.
  Variable index : Type.
  Lemma atomic_all_or_nothing (l : list (Txn.stmt index)) k i :
    run_atomic index l k i = i \/ run_atomic index l k i = run_atomic index l None i.
  Proof.
    unfold run_atomic. destruct (run index l k i) as [i' raised] eqn:E. destruct raised; [left; reflexivity|].
    right. assert (H : forall l k i i', run index l k i = (i', false) -> run index l None i = (i', false)).
    { clear. induction l as [|s l IH]; intros k i i' H; cbn in *; [exact H|].
      destruct k as [[|k]|]; [discriminate | apply (IH _ _ _ H) | exact H]. }
    rewrite (H _ _ _ _ E). reflexivity.
  Qed.

  Lemma plain_single_write (l : list (Txn.stmt index)) k i : writes index l <= 1 ->
    run_plain index l k i = i \/ run_plain index l k i = run_plain index l None i.
  Proof.
    unfold run_plain. revert k i. induction l as [|s l IH]; intros k i H; [left; reflexivity|].
    cbn [run]. destruct k as [[|k]|]; [left; reflexivity | | right; reflexivity].
    destruct s as [|f].
    - apply IH. exact H.
    - right. assert (W : writes index l = 0) by (unfold writes in *; cbn in H; lia).
      assert (R : forall l k j, writes index l = 0 -> fst (run index l k j) = j).
      { clear. induction l as [|s l IH]; intros k j W; [reflexivity|]. cbn [run].
        destruct s; [|unfold writes in W; cbn in W; lia].
        destruct k as [[|k]|]; [reflexivity | apply IH; exact W | apply IH; exact W]. }
      rewrite !R by exact W. reflexivity.
  Qed.
End T.

(* ---- retry ---- *)
Lemma retry_once autoconnect in_txn f1 f2 :
  (in_txn = false /\ autoconnect = true ->
     fst (execute_sql autoconnect in_txn f1 f2) <= 2 /\ snd (execute_sql autoconnect in_txn f1 f2) = f1 && f2 /\
     (f1 = true -> fst (execute_sql autoconnect in_txn f1 f2) = 2)) /\
  (in_txn = true \/ autoconnect = false ->
     fst (execute_sql autoconnect in_txn f1 f2) = 1 /\ snd (execute_sql autoconnect in_txn f1 f2) = f1).
Proof.
  unfold execute_sql, no_retry. destruct autoconnect, in_txn, f1, f2; cbn; repeat split; intros; try lia; try reflexivity; intuition congruence.
Qed.

Lemma pool_replaces aborting alive : aborting = false -> Forall (fun b => b = true) (pool_check aborting alive) /\ length (pool_check aborting alive) = length alive.
Proof. intros ->. unfold pool_check. split; [apply Forall_forall; intros b H; apply in_map_iff in H as (? & <- & _); reflexivity | apply map_length]. Qed.

Definition ex_acts : list act := [Reg true 7 [10]; Stmt 1; Reg false 8 [11; 12]; Stmt 2; Reg true 9 []; Stmt 3].
Lemma example_worker :
  let r := worker_iteration (fun s => Nat.eqb s 3 || Nat.eqb s 11) true true [] ex_acts in
  started r = [9; 7; 8] /\ task_done_calls r = 1 /\ worker_exits r = true /\ global_abort r = false /\ requeued_copy r = true.
Proof. vm_compute. repeat split; reflexivity. Qed.
