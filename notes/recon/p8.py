"""HSM feasibility: stub lfs on PATH, LustreHSM node, check with restore, release_files."""
from common import *
import os, json, stat, hashlib, time
tmp, sdb = setup("h1")
bindir = tmp/"bin"; bindir.mkdir()
statef = tmp/"hsm.json"; statef.write_text("{}")
(bindir/"lfs").write_text(f'''#!/usr/bin/env python3
import sys, json, os
sf = {str(statef)!r}
st = json.load(open(sf))
cmd = sys.argv[1]
log = open(sf + ".log", "a"); log.write(" ".join(sys.argv[1:]) + "\\n")
if cmd == "quota":
    path = sys.argv[-1]; print(f"{{path}} 1000 2000 2000 - 1 0 0 -"); sys.exit(0)
path = sys.argv[2]
s = st.get(path)
if s is None or not os.path.exists(path):
    sys.stderr.write(f"{{path}}: No such file or directory\\n"); sys.exit(2)
if cmd == "hsm_state":
    words = {{"unarchived": "(0x00000000)", "restored": "(0x00000009) exists archived, archive_id:1",
             "released": "(0x0000000d) released exists archived, archive_id:1",
             "restoring": "(0x0000000d) released exists archived, archive_id:1"}}[s]
    print(f"{{path}}: {{words}}")
elif cmd == "hsm_action":
    print(f"{{path}}: " + ("RESTORE running" if s == "restoring" else "NOOP"))
elif cmd == "hsm_restore":
    if s == "released": st[path] = "restoring"
elif cmd == "hsm_release":
    if s == "restored": st[path] = "released"
json.dump(st, open(sf, "w"))
''')
os.chmod(bindir/"lfs", 0o755)
os.environ["PATH"] = str(bindir) + ":" + os.environ["PATH"]
g = StorageGroup.create(name="hg", io_class="LustreHSM")
cfg = json.dumps({"headroom": 1, "quota_id": "grp", "quota_type": "group", "restore_wait": 1})
(tmp/"hsm").mkdir(); (tmp/"sf").mkdir()
hn = StorageNode.create(name="hsm", group=g, root=str(tmp/"hsm"), host="h1", active=True, storage_type="A", io_class="LustreHSM", io_config=cfg)
sn = mknode(tmp, "sf", g)
acq = ArchiveAcq.create(name="acq"); data=b"x"*2000
f = ArchiveFile.create(acq=acq, name="f", size_b=len(data), md5sum=hashlib.md5(data).hexdigest())
(tmp/"hsm"/"acq").mkdir(); p = tmp/"hsm"/"acq"/"f"; p.write_bytes(data)
statef.write_text(json.dumps({str(p): "released"}))
c = ArchiveFileCopy.create(file=f, node=hn, has_file="M", wants_file="Y", ready=False)
from alpenhorn.daemon import update
from alpenhorn.scheduler import FairMultiFIFOQueue, pool
class Q(FairMultiFIFOQueue):
    def get(self, timeout=None): return super().get(timeout=0.05)
q = Q()
config.config["daemon"]["serial_io_timeout"] = 3
from alpenhorn.scheduler import global_abort
class OneShot(pool.EmptyPool):
    def check(self): global_abort.set()
for i in range(6):
    global_abort.clear()
    update.update_loop(q, OneShot(), False)
    st = json.load(open(statef))
    cc = ArchiveFileCopy.get(id=c.id)
    print("iter", i, "copy", cc.has_file, cc.ready, "hsm", list(st.values()), "deferred", q.deferred_size, "restoring", dict(update_nodes := {}) or "")
    if st[str(p)] == "restoring": st[str(p)] = "restored"; statef.write_text(json.dumps(st))   # HSM finishes restore
    time.sleep(1.1)
print(open(str(statef)+".log").read()[-900:])
import shutil; shutil.rmtree(tmp)
