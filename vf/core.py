"""Driver core: context, Coq runner, case shards, evidence, known findings, verdict."""
from __future__ import annotations

import fcntl
import hashlib
import json
import os
import pathlib
import random
import re
import shutil
import subprocess
import sys
import time

VERIF = pathlib.Path("/verif")
REPO = pathlib.Path(os.environ.get("VERIF_REPO", "/repo"))
COQ = VERIF / "coq"
THEORIES = COQ / "theories"
TIE = COQ / "tie"
PY = "/venv/bin/python"

FORBIDDEN = re.compile(
    r"\b(Admitted|admit|Axiom|Axioms|Parameter|Parameters|Conjecture|Hypothesis|Variable|Abort All)\b"
    r"|Unset\s+Guard|Unset\s+Positivity|Unset\s+Universe|bypass_check|type-in-type|impredicative-set|Admit Obligations"
)


class Broken(Exception):
    """An obligation or a tie no longer checks."""

    def __init__(self, kind, name, detail=""):
        super().__init__(f"{kind}:{name}")
        self.kind, self.name, self.detail = kind, name, detail


class Ctx:
    def __init__(self, pid: str, tier: str, seed: int):
        self.pid, self.tier, self.seed = pid, tier, seed
        self.t0 = time.time()
        self.rng = random.Random(seed)
        self.build = VERIF / "build" / pid
        if self.build.exists():
            shutil.rmtree(self.build)
        self.build.mkdir(parents=True)
        self.scratch = None  # created lazily, outside /repo and /verif
        self.broken: list[dict] = []  # obligations / ties that no longer check
        self.failing: list[dict] = []  # concrete failing inputs (monitor hits)
        self.obligations: list[str] = []  # Qed-closed statements checked this run
        self.attempted: list[str] = []
        self.axioms: dict[str, list[str]] = {}
        self.cov: dict = {"evaluations": 0, "samples": [], "families": {}}
        self.distinct: set[str] = set()
        self.assumptions: list[str] = []
        self.notes: list[str] = []

    # ---- scratch -------------------------------------------------------------------------------
    def tmp(self) -> pathlib.Path:
        if self.scratch is None:
            base = pathlib.Path(os.environ.get("VERIF_SCRATCH", "/var/tmp"))
            base.mkdir(parents=True, exist_ok=True)
            import tempfile

            self.scratch = pathlib.Path(tempfile.mkdtemp(prefix=f"alpverif_{self.pid}_", dir=base))
        return self.scratch

    def cleanup(self):
        if self.scratch is not None:
            shutil.rmtree(self.scratch, ignore_errors=True)
            self.scratch = None

    # ---- bookkeeping ---------------------------------------------------------------------------
    def quick(self) -> bool:
        return self.tier == "quick"

    def count(self, family: str, n: int = 1):
        self.cov["evaluations"] += n
        self.cov["families"][family] = self.cov["families"].get(family, 0) + n

    def distinct_add(self, canon) -> None:
        self.distinct.add(hashlib.sha1(repr(canon).encode()).hexdigest()[:16])

    def sample(self, s, cap=6):
        if len(self.cov["samples"]) < cap:
            self.cov["samples"].append(s)

    def fail(self, signature: str, what: str, replay: dict):
        """record a concrete failing input found on the implementation"""
        self.failing.append({"signature": signature, "what": what, "replay": replay})

    def broke(self, kind: str, name: str, detail: str = ""):
        self.broken.append({"kind": kind, "name": name, "detail": detail[-4000:]})


# ---- Coq ---------------------------------------------------------------------------------------
def run(cmd, timeout=600, cwd=None, env=None):
    try:
        p = subprocess.run(cmd, cwd=cwd, env=env, capture_output=True, text=True, timeout=timeout)
        return p.returncode, p.stdout + p.stderr
    except subprocess.TimeoutExpired as e:
        return 124, f"TIMEOUT after {timeout}s: {cmd}\n{(e.stdout or b'').decode(errors='replace') if isinstance(e.stdout, bytes) else (e.stdout or '')}"


def ensure_theories(ctx: Ctx) -> bool:
    """full .vo build of the hand-written development (normally a no-op after setup_cmd)"""
    lock = open(VERIF / "build" / ".make.lock", "w")
    fcntl.flock(lock, fcntl.LOCK_EX)
    try:
        rc, out = run(["/verif/setup.sh"], timeout=3300)
    finally:
        fcntl.flock(lock, fcntl.LOCK_UN)
    if rc != 0:
        m = re.search(r'File "([^"]+)", line (\d+)', out)
        ctx.broke("proof", "make " + (m.group(1) + ":" + m.group(2) if m else ""), out)
        return False
    return True


def coqc(ctx: Ctx, path: pathlib.Path, timeout=300):
    """compile one per-run file (generated model, tie lemma, property statement, case shard) in ctx.build"""
    cmd = ["timeout", str(timeout), "coqc", "-q", "-Q", str(THEORIES), "Alp", "-Q", str(ctx.build), "Run", str(path)]
    return run(cmd, timeout=timeout + 20, cwd=ctx.build)


def qed_names(text: str) -> list[str]:
    """names of statements closed by Qed/Defined in a .v text"""
    out = []
    cur = None
    for m in re.finditer(r"^\s*(?:Local\s+|Global\s+)?(Theorem|Lemma|Corollary|Example|Fact|Proposition|Remark)\s+([A-Za-z0-9_']+)|(\bQed\.|\bDefined\.)", text, re.M):
        if m.group(2):
            cur = m.group(2)
        elif cur:
            out.append(cur)
            cur = None
    return out


def requires(text: str) -> list[str]:
    mods = []
    for m in re.finditer(r"From\s+Alp\s+Require\s+(?:Import\s+|Export\s+)?([A-Za-z0-9_.\s]+?)\.(?=\s|$)", text):
        mods += m.group(1).split()
    return mods


def cone(start: pathlib.Path) -> list[pathlib.Path]:
    """hand-written files in the dependency cone of `start` (by its From Alp Require lines)"""
    seen, todo = [], [start]
    while todo:
        f = todo.pop()
        if f in seen or not f.exists():
            continue
        seen.append(f)
        for mod in requires(f.read_text()):
            todo.append(THEORIES / (mod.replace(".", "/") + ".v"))
    return seen


def scan_forbidden(ctx: Ctx, files):
    """no axioms, no admits, no switched-off checks; Variable/Hypothesis only inside a Section"""
    for f in files:
        txt = re.sub(r"\(\*.*?\*\)", lambda m: "\n" * m.group(0).count("\n"), f.read_text(), flags=re.S)
        depth = 0
        for i, line in enumerate(txt.splitlines(), 1):
            if re.match(r"\s*Section\b", line):
                depth += 1
            elif re.match(r"\s*End\b", line) and depth > 0:
                depth -= 1
            m = FORBIDDEN.search(line)
            if m:
                if m.group(0) in ("Variable", "Hypothesis") and depth > 0:
                    continue
                ctx.broke("proof", f"forbidden construct '{m.group(0)}' at {f}:{i}")


def parse_assumptions(out: str) -> list[str]:
    """collect what every `Print Assumptions` printed"""
    res = []
    blocks = re.split(r"\n(?=Closed under the global context|Axioms:)", "\n" + out)
    for b in blocks:
        if b.startswith("Axioms:"):
            for line in b.splitlines()[1:]:
                m = re.match(r"^([A-Za-z0-9_.']+)\s*:", line)
                if m:
                    res.append(m.group(1))
    return sorted(set(res))


def check_property_file(ctx: Ctx, relname: str, allowed_axioms=()):
    """re-compile theories/Properties/<relname> in the build dir, count obligations in its cone"""
    src = THEORIES / "Properties" / relname
    files = cone(src)
    scan_forbidden(ctx, files)
    for f in files:
        names = qed_names(f.read_text())
        ctx.attempted += [f"{f.stem}.{n}" for n in names]
    dst = ctx.build / ("Prop_" + relname)
    shutil.copy(src, dst)
    rc, out = coqc(ctx, dst)
    (ctx.build / (dst.stem + ".log")).write_text(out)
    if rc != 0:
        ctx.broke("proof", f"Properties/{relname}", out)
        return False
    ax = parse_assumptions(out)
    ctx.axioms[relname] = ax
    closed = out.count("Closed under the global context")
    n_print = len(re.findall(r"^Print Assumptions", src.read_text(), re.M))
    if closed + (1 if ax else 0) < 1 or (closed < n_print and not ax):
        ctx.broke("proof", f"Properties/{relname}: Print Assumptions output incomplete", out)
    bad = [a for a in ax if a not in allowed_axioms]
    if bad:
        ctx.broke("proof", f"Properties/{relname}: unexpected axioms {bad}", out)
    for f in files:
        ctx.obligations += [f"{f.stem}.{n}" for n in qed_names(f.read_text())]
    return True


def check_tie(ctx: Ctx, gen_files: dict[str, str], tie_names: list[str]):
    """write generated model files, compile them and the tie lemmas against them"""
    ok = True
    for name, text in gen_files.items():
        p = ctx.build / f"{name}.v"
        p.write_text(text)
        rc, out = coqc(ctx, p)
        if rc != 0:
            ctx.broke("translator", f"generated {name}.v does not compile", out)
            ok = False
    if not ok:
        return False
    for t in tie_names:
        src = TIE / f"{t}.v"
        scan_forbidden(ctx, [src])
        dst = ctx.build / f"{t}.v"
        shutil.copy(src, dst)
        names = [f"{t}.{n}" for n in qed_names(src.read_text())]
        ctx.attempted += names
        rc, out = coqc(ctx, dst)
        if rc != 0:
            m = re.search(r"line (\d+), characters", out)
            ctx.broke("tie", f"tie/{t}.v" + (f" line {m.group(1)}" if m else ""), out)
            ok = False
        else:
            ctx.obligations += names
    return ok


# ---- case shards ----------------------------------------------------------------------------------
def cz(n) -> str:
    return f"({int(n)})%Z"


def cn(n) -> str:
    return f"{int(n)}%N"


def cnat(n) -> str:
    return f"{int(n)}%nat"


def cbool(b) -> str:
    return "true" if b else "false"


def cstr(s) -> str:
    if isinstance(s, str):
        s = s.encode("utf-8", "surrogateescape")
    return "[" + "; ".join(str(b) for b in s) + "]%N" if s else "(@nil N)"


def clist(items, ty=None) -> str:
    items = list(items)
    if not items:
        return f"(@nil {ty})" if ty else "[]"
    return "[" + "; ".join(items) + "]"


def copt(x, f=lambda v: v, ty=None) -> str:
    if x is None:
        return f"(@None {ty})" if ty else "None"
    return f"(Some {f(x)})"


def ctup(*xs) -> str:
    return "(" + ", ".join(xs) + ")"


def run_cases(ctx: Ctx, family: str, corr_module: str, case_ty: str, checker: str, cases: list[str], shard=400, extra_imports=()):
    """Coq evaluates the model on the same inputs the implementation ran and compares.
    cases[i] is a Coq term of type case_ty carrying input and the implementation's observation.
    Returns the indices where model and implementation differ."""
    shards = [cases[i : i + shard] for i in range(0, len(cases), shard)]
    files = []
    for k, sh in enumerate(shards):
        p = ctx.build / f"Cases_{family}_{k}.v"
        imports = "".join(f"From Alp Require Import {m}.\n" for m in (corr_module, *extra_imports))
        p.write_text(
            "From Coq Require Import List NArith ZArith Bool.\nImport ListNotations.\nFrom Alp Require Import Base.Str Base.Types.\n"
            + imports
            + f"Definition cases : list ({case_ty}) :=\n  [ "
            + "\n  ; ".join(sh)
            + f" ].\nEval vm_compute in (bad_idx {checker} cases).\n"
        )
        files.append(p)
    bad = []
    procs = []
    maxpar = 12
    results = {}

    def reap(k, pr):
        out, _ = pr.communicate()
        results[k] = (pr.returncode, out)

    i = 0
    running = []
    while i < len(files) or running:
        while i < len(files) and len(running) < maxpar:
            cmd = ["timeout", "600", "coqc", "-q", "-Q", str(THEORIES), "Alp", "-Q", str(ctx.build), "Run", str(files[i])]
            running.append((i, subprocess.Popen(cmd, cwd=ctx.build, stdout=subprocess.PIPE, stderr=subprocess.STDOUT, text=True)))
            i += 1
        k, pr = running.pop(0)
        reap(k, pr)
    for k in range(len(files)):
        rc, out = results[k]
        if rc != 0:
            ctx.broke("correspondence", f"{family}: case shard {k} does not evaluate", out)
            continue
        m = re.search(r"=\s*(.*?)\n\s*:\s*list N", out, re.S)
        if not m:
            ctx.broke("correspondence", f"{family}: unparsable result of shard {k}", out)
            continue
        for d in re.findall(r"\d+", m.group(1).replace("%N", "")):
            bad.append(k * shard + int(d))
    ctx.cov.setdefault("traces_validated_against_impl", 0)
    ctx.cov["traces_validated_against_impl"] += len(cases)
    return bad


# ---- known findings --------------------------------------------------------------------------------
def load_known():
    p = VERIF / "known_findings.json"
    if not p.exists():
        return []
    return json.loads(p.read_text())["findings"]


# ---- verdict and evidence -----------------------------------------------------------------------------
def finish(ctx: Ctx, level_text_trusted: list[str], rule: str, checker_cmd: str) -> int:
    known = [k for k in load_known() if k["property"] == ctx.pid and k["status"] == "open"]
    known_sigs = {k["signature"]: k for k in known}
    # the shared monitors (histories) state several properties at once: a hit on another property's statement is that property's
    # check's business (its own check runs the same families); here it is recorded, not alarmed
    foreign = [f for f in ctx.failing if re.match(r"C\d\d:", f["signature"]) and not f["signature"].startswith(ctx.pid + ":")]
    ctx.failing = [f for f in ctx.failing if f not in foreign]
    for sig in sorted({f["signature"] for f in foreign}):
        print(f"NOTE monitor of another property fired during this check (not counted here): {sig}")
    if foreign:
        ctx.notes.append({"other_property_monitor_hits": sorted({f["signature"] for f in foreign})})
    unknown = [f for f in ctx.failing if f["signature"] not in known_sigs]
    reported_known = {}
    for f in ctx.failing:
        if f["signature"] in known_sigs:
            reported_known[f["signature"]] = known_sigs[f["signature"]]
    for sig, k in reported_known.items():
        print(f"KNOWN-FINDING: property={ctx.pid} {k['what']}")
    rc = 0
    replays = VERIF / "replays"
    replays.mkdir(exist_ok=True)
    lines = []
    if unknown:
        seen = set()
        for f in unknown:
            if f["signature"] in seen:
                continue
            seen.add(f["signature"])
            h = hashlib.sha1((f["signature"] + json.dumps(f["replay"], sort_keys=True, default=str)).encode()).hexdigest()[:10]
            path = replays / f"{ctx.pid}-{h}.json"
            path.write_text(json.dumps({"property": ctx.pid, "signature": f["signature"], "what": f["what"], "seed": ctx.seed,
                                        "broken_obligations": ctx.broken, "replay": f["replay"]}, indent=1, default=str))
            lines.append(f"VIOLATION property={ctx.pid} replay={path}")
            if len(lines) >= 5:
                break
        rc = 1
    elif ctx.broken:
        h = hashlib.sha1(json.dumps(ctx.broken, sort_keys=True).encode()).hexdigest()[:10]
        path = replays / f"{ctx.pid}-unchecked-{h}.json"
        path.write_text(json.dumps({"property": ctx.pid, "no_longer_checks": ctx.broken, "seed": ctx.seed,
                                    "note": "no concrete failing input was found by the search; the named theorem, tie lemma or correspondence family no longer checks, so the property is no longer shown to hold"}, indent=1))
        lines.append(f"VIOLATION property={ctx.pid} replay={path} no-failing-input-found")
        rc = 1
    for b in ctx.broken:
        print(f"BROKEN {b['kind']}: {b['name'][:400]}")
    ev = {
        "property_id": ctx.pid,
        "tier": ctx.tier,
        "seed": ctx.seed,
        "level": "proof",
        "coverage": {
            "obligations": len(set(ctx.attempted)),
            "discharged": len(set(ctx.obligations)),
            "checker_cmd": checker_cmd,
            "trusted_base": level_text_trusted + [f"Print Assumptions {k}: {', '.join(v) if v else 'Closed under the global context'}" for k, v in ctx.axioms.items()],
            "evaluations": ctx.cov["evaluations"],
            "distinct_nontrivial": len(ctx.distinct),
            "rule": rule,
            "samples": ctx.cov["samples"] or ["(none)"],
            "families": ctx.cov["families"],
            "traces_validated_against_impl": ctx.cov.get("traces_validated_against_impl", 0),
            "broken": [b["kind"] + ":" + b["name"] for b in ctx.broken],
            "known_findings_reported": sorted(reported_known),
            "notes": ctx.notes,
            **{k: v for k, v in ctx.cov.items() if k not in ("evaluations", "samples", "families", "traces_validated_against_impl")},
        },
        "assumptions": ctx.assumptions,
        "wall_s": round(time.time() - ctx.t0, 2),
        "violations": len(lines),
    }
    (VERIF / "evidence").mkdir(exist_ok=True)
    (VERIF / "evidence" / f"{ctx.pid}.json").write_text(json.dumps(ev, indent=1, default=str))
    for l in lines:
        print(l)
    ctx.cleanup()
    if rc == 0:
        print(f"OK property={ctx.pid} tier={ctx.tier} obligations={ev['coverage']['discharged']}/{ev['coverage']['obligations']} evaluations={ev['coverage']['evaluations']} wall={ev['wall_s']}s")
    return rc
