From Coq Require Import List NArith ZArith Bool.
From Alp Require Import Base.Str Base.Types Model.Worker.
From Run Require Gen_worker.
Lemma tie_no_retry a t : Gen_worker.g_no_retry a t = no_retry a t.
Proof. reflexivity. Qed.
Lemma tie_pool_skip b : Gen_worker.g_pool_aborting b = b. Proof. reflexivity. Qed.
Lemma tie_respawn b : Gen_worker.g_respawn b = negb b. Proof. reflexivity. Qed.
