(* Feasibility sketch: the CURRENT UpDownLock.acquire — the test (under _lock) and the wait (on a separate
   condition) are two critical sections; a release in between is missed: a thread sleeps on a free lock. *)
From Coq Require Import List ZArith Bool Lia Arith.
Import ListNotations.
Open Scope Z_scope.

Definition tid := nat.
Inductive want := Up | Down.
Definition sgn (w : want) : Z := match w with Up => 1 | Down => -1 end.
Inductive pc := Idle | AboutToWait (w : want) | Waiting (w : want) | Woken (w : want).
Record st := { count : Z; owners : tid -> Z; pcs : tid -> pc }.
Definition upd {A} (f : tid -> A) (t : tid) (v : A) : tid -> A := fun u => if Nat.eqb u t then v else f u.
Definition compatible (w : want) (c : Z) : bool := match w with Up => 0 <=? c | Down => c <=? 0 end.

Inductive label := LTest (w : want) (t : tid) | LEnterWait (t : tid) | LRetry (t : tid) | LRel (w : want) (t : tid).

Definition wake_all (p : tid -> pc) : tid -> pc := fun u => match p u with Waiting w => Woken w | x => x end.

Definition step (s : st) (l : label) : st :=
  match l with
  | LTest w t =>                                   (* with self._lock: fast path *)
      match pcs s t with
      | Idle | Woken _ =>
          if compatible w (count s)
          then {| count := count s + sgn w; owners := upd (owners s) t (owners s t + 1); pcs := upd (pcs s) t Idle |}
          else {| count := count s; owners := owners s; pcs := upd (pcs s) t (AboutToWait w) |}
      | _ => s end
  | LEnterWait t =>                                (* with self._is_unlocked: wait()   — a separate section *)
      match pcs s t with AboutToWait w => {| count := count s; owners := owners s; pcs := upd (pcs s) t (Waiting w) |} | _ => s end
  | LRetry t => s
  | LRel w t =>
      match pcs s t with
      | Idle =>
          let c := count s - sgn w in
          {| count := c; owners := upd (owners s) t (owners s t - 1); pcs := if c =? 0 then wake_all (pcs s) else pcs s |}
      | _ => s end
  end.

Definition init : st := {| count := 0; owners := fun _ => 0; pcs := fun _ => Idle |}.

(* thread 0 takes the lock up; thread 1 tests for down and fails; thread 0 releases (nobody is waiting yet, the
   notify is lost); thread 1 goes to sleep — on a free lock, for ever. *)
Definition witness : list label := [LTest Up 0%nat; LTest Down 1%nat; LRel Up 0%nat; LEnterWait 1%nat].

Theorem lost_wakeup_refuted :
  exists labels, let s := fold_left step labels init in count s = 0 /\ pcs s 1%nat = Waiting Down.
Proof. exists witness. vm_compute. split; reflexivity. Qed.
Print Assumptions lost_wakeup_refuted.
