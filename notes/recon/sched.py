"""Deterministic cooperative scheduler over real threads: only one runs at a time;
   scheduling points at lock/cond ops.  Prototype."""
import threading as _t, types, itertools
class Deadlock(Exception): pass
class Sched:
    def __init__(self, choose):
        self.choose = choose            # function(list of runnable tids) -> tid
        self.threads = {}               # tid -> state dict
        self.cur = None
        self.trace = []
        self.main_ev = _t.Event()
    def spawn(self, tid, fn):
        st = {"ev": _t.Event(), "done": False, "blocked": None, "fn": fn, "res": None}
        def run():
            st["ev"].wait(); st["ev"].clear()
            try: st["res"] = ("ok", fn())
            except BaseException as e: st["res"] = ("exc", repr(e))
            st["done"] = True
            self._switch(tid, finished=True)
        st["th"] = _t.Thread(target=run, daemon=True); st["th"].start()
        self.threads[tid] = st
    def runnable(self):
        return [t for t, s in self.threads.items() if not s["done"] and (s["blocked"] is None or s["blocked"]())]
    def _switch(self, me, finished=False):
        r = self.runnable()
        if not r:
            self.main_ev.set()
            if not finished:
                # blocked forever
                self.threads[me]["ev"].wait()
            return
        nxt = self.choose(r)
        self.trace.append(nxt)
        if nxt == me and not finished: return
        self.cur = nxt
        self.threads[nxt]["ev"].set()
        if not finished:
            self.threads[me]["ev"].wait(); self.threads[me]["ev"].clear()
    def yield_(self, label=None):
        self._switch(self.cur)
    def block_until(self, pred):
        me = self.cur
        self.threads[me]["blocked"] = pred
        self._switch(me)
        self.threads[me]["blocked"] = None
    def run(self):
        r = self.runnable(); nxt = self.choose(r); self.trace.append(nxt); self.cur = nxt
        self.threads[nxt]["ev"].set()
        self.main_ev.wait()
        return {t: s["res"] for t, s in self.threads.items()}, [t for t,s in self.threads.items() if not s["done"]]

def fake_threading(S):
    class Lock:
        def __init__(self): self.owner=None
        def acquire(self, blocking=True, timeout=-1):
            S.yield_()
            if self.owner is not None:
                if not blocking: return False
                S.block_until(lambda: self.owner is None)
            self.owner = S.cur; return True
        def release(self):
            self.owner=None; S.yield_()
        def locked(self): return self.owner is not None
        __enter__=acquire
        def __exit__(self,*a): self.release()
    class RLock(Lock):
        def __init__(self): self.owner=None; self.n=0
        def acquire(self, blocking=True, timeout=-1):
            if self.owner == S.cur: self.n+=1; return True
            S.yield_()
            if self.owner is not None: S.block_until(lambda: self.owner is None)
            self.owner=S.cur; self.n=1; return True
        def release(self):
            self.n-=1
            if self.n==0: self.owner=None; S.yield_()
        __enter__=acquire
        def __exit__(self,*a): self.release()
    class Condition:
        def __init__(self, lock=None):
            self.lock = lock or RLock(); self.waiters=[]
            self.acquire=self.lock.acquire; self.release=self.lock.release
        def __enter__(self): return self.lock.acquire()
        def __exit__(self,*a): self.lock.release()
        def wait(self, timeout=None):
            me=S.cur; tok={"n":False}; self.waiters.append(tok)
            saved = getattr(self.lock,"n",1); 
            if hasattr(self.lock,"n"): self.lock.n=0
            self.lock.owner=None
            # timeout modelled as: never fires (blocking) unless timeout given -> fires only when nothing else can run
            S.block_until(lambda: tok["n"])
            if self.lock.owner is not None: S.block_until(lambda: self.lock.owner is None)
            self.lock.owner=me
            if hasattr(self.lock,"n"): self.lock.n=saved
            return True
        def notify(self,n=1):
            for tok in self.waiters[:n]: tok["n"]=True
            del self.waiters[:n]
        def notify_all(self): self.notify(len(self.waiters))
    m = types.SimpleNamespace(Lock=Lock, RLock=RLock, Condition=Condition, get_ident=lambda: S.cur)
    return m
