from common import *
import hashlib, datetime, os
tmp, sdb = setup()
from alpenhorn.io import ioutil
gA = StorageGroup.create(name="gA"); gB = StorageGroup.create(name="gB")
a = mknode(tmp,"a",gB); b = mknode(tmp,"b",gB)   # a and b in same group gB
acq = ArchiveAcq.create(name="acq"); f = ArchiveFile.create(acq=acq,name="f",size_b=5,md5sum="x"*32)
StorageTransferAction.create(node_from=a, group_to=gB, autoclean=True)   # self loop: a in gB
ArchiveFileCopy.create(file=f,node=a,has_file="Y",wants_file="Y")
ArchiveFileCopy.create(file=f,node=b,has_file="Y",wants_file="Y")
ioutil.post_add(b, f)
print("(e) self-loop autoclean: copy on a wants_file =", ArchiveFileCopy.get(file=f,node=a).wants_file)

# CLI
from click.testing import CliRunner
from alpenhorn.cli import entry
import alpenhorn.cli.cli as clicli
from unittest.mock import patch
import verif_dbext
verif_dbext._db = sdb
conf = tmp/"conf.yaml"; conf.write_text("extensions:\n  - verif_dbext\ndatabase:\n  path: ':memory:'\n")
def cli(args, input=None):
    extensions._db_ext = None
    r = CliRunner().invoke(entry, ["--test-isolation","-c",str(conf)]+args, input=input, catch_exceptions=False)
    return r.exit_code, r.output
fn = mknode(tmp,"fld",gA,stype="F")
old = ArchiveFile.create(acq=acq,name="old",size_b=1,md5sum="y"*32, registered=datetime.datetime(2000,1,1))
new = ArchiveFile.create(acq=acq,name="new",size_b=1,md5sum="y"*32)
fut = ArchiveFile.create(acq=acq,name="fut",size_b=1,md5sum="y"*32, registered=pw.utcnow()+datetime.timedelta(days=30))
for x in (old,new,fut): ArchiveFileCopy.create(file=x,node=fn,has_file="Y",wants_file="Y")
print(cli(["node","clean","fld","--days","10","--force"]))
print("(f) --days 10:", [(c.file.name,c.wants_file) for c in ArchiveFileCopy.select().where(ArchiveFileCopy.node==fn)])
# reset
ArchiveFileCopy.update(wants_file="Y").where(ArchiveFileCopy.node==fn).execute()
empty = tmp/"empty.txt"; empty.write_text("# nothing\n")
print(cli(["node","clean","fld","--now","--force","--file-list",str(empty)]))
print("(j) empty file list:", [(c.file.name,c.wants_file) for c in ArchiveFileCopy.select().where(ArchiveFileCopy.node==fn)])
ArchiveFileCopy.update(wants_file="N", has_file="N").where(ArchiveFileCopy.node==fn).execute()
print(cli(["file","clean","acq/old","--cancel"]))
print("(i) file clean --cancel on removed copy:", [(c.file.name,c.has_file,c.wants_file) for c in ArchiveFileCopy.select().where(ArchiveFileCopy.node==fn)])
import shutil; shutil.rmtree(tmp)
