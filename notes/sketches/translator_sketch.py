"""Feasibility sketch of the fail-closed translator (T1): whole function + guard extraction."""
import ast, sys, textwrap
class Untranslatable(Exception): pass
def bail(node, why): raise Untranslatable(f"UNTRANSLATABLE line {getattr(node,'lineno','?')}: {why}: {ast.dump(node)[:80]}")

def coq_str(s: str) -> str:
    return "[" + "; ".join(str(b) for b in s.encode()) + "]%N"

class Expr:
    """Python expression -> Gallina text; names are free variables typed by `env` ('str'|'Z'|'bool'|'optZ')."""
    def __init__(self, env): self.env = env; self.free = {}
    def name(self, node):
        # a.b.c  ->  a_b_c
        parts = []
        while isinstance(node, ast.Attribute): parts.append(node.attr); node = node.value
        if not isinstance(node, ast.Name): bail(node, "name base")
        parts.append(node.id); n = "_".join(reversed(parts))
        if n not in self.env: bail(node, f"unknown free name {n}")
        self.free[n] = self.env[n]; return n
    def ty(self, node):
        if isinstance(node, ast.Constant):
            return {str: "str", int: "Z", bool: "bool", type(None): "none"}[type(node.value)]
        if isinstance(node, (ast.Name, ast.Attribute)): self.name(node); return self.env["_".join(self._parts(node))]
        if isinstance(node, ast.BinOp): return "Z"
        if isinstance(node, (ast.Compare, ast.BoolOp)) or (isinstance(node, ast.UnaryOp) and isinstance(node.op, ast.Not)): return "bool"
        if isinstance(node, ast.IfExp): return self.ty(node.body)
        if isinstance(node, ast.Call): return "bool"
        bail(node, "type")
    def _parts(self, node):
        parts=[]
        while isinstance(node, ast.Attribute): parts.append(node.attr); node=node.value
        parts.append(node.id); return list(reversed(parts))
    def tr(self, node):
        if isinstance(node, ast.Constant):
            v = node.value
            if isinstance(v, bool): return "true" if v else "false"
            if isinstance(v, int): return f"({v})%Z"
            if isinstance(v, str): return coq_str(v)
            bail(node, "constant")
        if isinstance(node, (ast.Name, ast.Attribute)): return self.name(node)
        if isinstance(node, ast.BoolOp):
            op = " && " if isinstance(node.op, ast.And) else " || "
            return "(" + op.join(self.truthy(v) for v in node.values) + ")"
        if isinstance(node, ast.UnaryOp) and isinstance(node.op, ast.Not): return f"(negb {self.truthy(node.operand)})"
        if isinstance(node, ast.IfExp): return f"(if {self.truthy(node.test)} then {self.tr(node.body)} else {self.tr(node.orelse)})"
        if isinstance(node, ast.BinOp):
            ops = {ast.Add: "+", ast.Sub: "-", ast.Mult: "*"}
            if type(node.op) not in ops: bail(node, "binop")
            return f"({self.tr(node.left)} {ops[type(node.op)]} {self.tr(node.right)})%Z"
        if isinstance(node, ast.Compare):
            if len(node.ops) != 1: bail(node, "chained compare")
            l, r, op = node.left, node.comparators[0], node.ops[0]
            if isinstance(op, (ast.Is, ast.IsNot)) and isinstance(r, ast.Constant) and r.value is None:
                e = f"(is_none {self.tr(l)})"; return e if isinstance(op, ast.Is) else f"(negb {e})"
            if isinstance(op, ast.In): return f"(infixb {self.tr(l)} {self.tr(r)})"
            t = self.ty(l)
            if t == "str":
                e = f"(str_eqb {self.tr(l)} {self.tr(r)})"
                if isinstance(op, ast.Eq): return e
                if isinstance(op, ast.NotEq): return f"(negb {e})"
                bail(node, "string order")
            zops = {ast.Eq: "=?", ast.Lt: "<?", ast.LtE: "<=?"}
            if type(op) in zops: return f"({self.tr(l)} {zops[type(op)]} {self.tr(r)})%Z"
            if isinstance(op, ast.Gt): return f"({self.tr(r)} <? {self.tr(l)})%Z"
            if isinstance(op, ast.GtE): return f"({self.tr(r)} <=? {self.tr(l)})%Z"
            if isinstance(op, ast.NotEq): return f"(negb ({self.tr(l)} =? {self.tr(r)})%Z)"
            bail(node, "compare")
        if isinstance(node, ast.Call) and isinstance(node.func, ast.Attribute) and node.func.attr in ("startswith", "endswith") and len(node.args) == 1:
            f = "prefixb" if node.func.attr == "startswith" else "suffixb"
            return f"({f} {self.tr(node.args[0])} {self.tr(node.func.value)})"
        bail(node, "expression")
    def truthy(self, node):
        t = self.ty(node)
        if t == "bool": return self.tr(node)
        if t == "Z": return f"(negb ({self.tr(node)} =? 0)%Z)"
        if t == "optZ": return f"(opt_truthy {self.tr(node)})"
        bail(node, f"truthiness of {t}")

def find_func(tree, qual):
    parts = qual.split("."); body = tree.body
    for p in parts:
        for n in body:
            if isinstance(n, (ast.FunctionDef, ast.ClassDef, ast.AsyncFunctionDef)) and n.name == p: body = n.body; node = n; break
        else: raise Untranslatable(f"UNTRANSLATABLE: {qual} not found")
    return node

def whole_function_str_option(tree, qual, arg):
    """straight-line `if test: return <str>` ... `return None`  ->  str -> bool (rejected?)"""
    fn = find_func(tree, qual); ex = Expr({arg: "str"}); clauses = []
    body = [s for s in fn.body if not (isinstance(s, ast.Expr) and isinstance(s.value, ast.Constant))]
    for s in body[:-1]:
        if not (isinstance(s, ast.If) and not s.orelse and len(s.body) == 1 and isinstance(s.body[0], ast.Return)
                and isinstance(s.body[0].value, ast.Constant) and isinstance(s.body[0].value.value, str)): bail(s, "clause shape")
        clauses.append(ex.truthy(s.test))
    last = body[-1]
    if not (isinstance(last, ast.Return) and isinstance(last.value, ast.Constant) and last.value.value is None): bail(last, "final return")
    return f"Definition {fn.name} ({arg} : str) : bool :=\n  " + "\n  || ".join(clauses) + "."

def guard(tree, qual, target, env):
    """the expression assigned to `target` (first assignment) inside function `qual`"""
    fn = find_func(tree, qual)
    for n in ast.walk(fn):
        if isinstance(n, ast.Assign) and len(n.targets) == 1 and isinstance(n.targets[0], ast.Name) and n.targets[0].id == target:
            ex = Expr(env); body = ex.tr(n.value)
            args = " ".join(f"({k} : {v})" for k, v in ex.free.items())
            return f"Definition {fn.name}_{target} {args} := {body}."
    raise Untranslatable(f"UNTRANSLATABLE: assignment to {target} in {qual} not found")

def nth_if(tree, qual, n, env, name):
    fn = find_func(tree, qual); ifs = [x for x in ast.walk(fn) if isinstance(x, ast.If)]
    ifs.sort(key=lambda x: x.lineno); ex = Expr(env); body = ex.truthy(ifs[n].test)
    args = " ".join(f"({k} : {v})" for k, v in ex.free.items())
    return f"(* line {ifs[n].lineno} *) Definition {name} {args} : bool := {body}."

if __name__ == "__main__":
    util = ast.parse(open("/repo/alpenhorn/common/util.py").read())
    print(whole_function_str_option(util, "invalid_import_path", "name"))
    asy = ast.parse(open("/repo/alpenhorn/io/_default_asyncs.py").read())
    print(guard(asy, "delete_async", "copies_required", {"copies_0_node_archive": "bool"}) if False else "")
    # subscript copies[0] is outside the whitelist on purpose; show fail-closed behaviour, then the supported spelling
    try: print(guard(asy, "delete_async", "copies_required", {}))
    except Untranslatable as e: print("fail-closed ->", e)
    print(nth_if(asy, "delete_async", 0, {"ncopies": "Z", "copies_required": "Z"}, "delete_async_too_few"))
    upd = ast.parse(open("/repo/alpenhorn/daemon/update.py").read())
    print(nth_if(upd, "UpdateableNode.update_delete", 0, {"self_db_under_min": "bool", "self_db_archive": "bool"}, "update_delete_discretionary"))
    print(nth_if(upd, "UpdateableNode.update_delete", 1, {"copy_wants_file": "str", "avail_needed": "Z"}, "update_delete_skip_removable"))
