(* Correspondence for C08: snapshots of the real index are checked by the model's boolean well-formedness,
   and the upsert / update primitives are compared on real tables *)
From Coq Require Import List NArith ZArith Bool.
From Alp Require Import Base.Str Base.Types Model.Sys.
Import ListNotations.
Definition CR (f n : N) (h : has) (w : wants) : crow := {| c_file := f; c_node := n; c_has := h; c_wants := w |}.
Definition FR (i a : N) (nm : str) (t : bool) : frow := {| f_id := i; f_acq := a; f_name := nm; f_temp := t |}.
Definition RR (i f a g : N) (c x : bool) (t0 t1 : option Z) : rrow :=
  {| r_id := i; r_file := f; r_from := a; r_group := g; r_completed := c; r_cancelled := x; r_t0 := t0; r_t1 := t1 |}.
Definition crow_eqb (a b : crow) : bool := N.eqb (c_file a) (c_file b) && N.eqb (c_node a) (c_node b) && has_eqb (c_has a) (c_has b) && wants_eqb (c_wants a) (c_wants b).
Inductive case :=
| CSnap (groups : list (N * N)) (i : index) (expect : bool)      (* the harness's own verdict on the snapshot *)
| CUpsert (before : list crow) (f n : N) (h : has) (w : wants) (after : list crow).
Definition check (c : case) : bool :=
  match c with
  | CSnap groups i expect => Bool.eqb (wf_b groups i) expect
  | CUpsert before f n h w after => list_eqb crow_eqb (upsert_copy f n h w before) after
  end.
