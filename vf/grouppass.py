"""The group pass (UpdateableGroup.update): which pending requests reach update_pull and which are dispatched --- shared by C01 and C05.

T1: the loop and the guard around it are pinned textually (pin()); T2: the real update() runs over random request tables with update_pull
scripted, and the calls it made are compared with Model/Dispatch.v (explore())."""
import ast

from vf import core
from vf.core import cbool, clist, cn, ctup
from vf.translate import core as T

LOOP = "if req.file not in seen_files:\n    if self.update_pull(req):\n        seen_files.add(req.file)"


def pin():
    upd = T.parse(core.REPO / "alpenhorn/daemon/update.py")
    f = T.find_func(upd, "UpdateableGroup.update")
    loops = [n for n in ast.walk(f) if isinstance(n, ast.For)]
    if len(loops) != 1 or "\n".join(ast.unparse(x) for x in loops[0].body) != LOOP:
        raise T.Untranslatable(f"UNTRANSLATABLE: the request loop of UpdateableGroup.update is no longer `{LOOP}`: {[ast.unparse(x) for l in loops for x in l.body]}")
    it = ast.unparse(loops[0].iter)
    for frag in ("ArchiveFileCopyRequest.completed == 0", "ArchiveFileCopyRequest.cancelled == 0", "ArchiveFileCopyRequest.group_to == self.db"):
        if frag not in it:
            raise T.Untranslatable(f"UNTRANSLATABLE: the request loop of UpdateableGroup.update no longer selects on `{frag}`: {it}")
    src = ast.unparse(f)
    if src.count("seen_files = set()") != 1 or src.find("seen_files = set()") > src.find("for req in"):
        raise T.Untranslatable("UNTRANSLATABLE: UpdateableGroup.update no longer starts each pass with an empty seen_files")
    up = T.find_func(upd, "UpdateableGroup.update_pull")
    rets = [ast.unparse(n) for n in ast.walk(up) if isinstance(n, ast.Return)]
    if sorted(set(rets)) != ["return False", "return True"] or rets.count("return True") != 1 or ast.unparse(up.body[-1]) != "return True":
        raise T.Untranslatable(f"UNTRANSLATABLE: update_pull must return True exactly once, as its last statement, after handing the request to the I/O layer: {rets}")
    tail = [ast.unparse(x) for x in up.body[-2:]]
    if "self.io.pull_force(req)" not in tail[0] or "self.io.pull(req)" not in tail[0]:
        raise T.Untranslatable(f"UNTRANSLATABLE: update_pull no longer ends with the hand-off to pull / pull_force: {tail}")


def explore(ctx, n):
    from alpenhorn.daemon import update as U
    from vf.harness import world as w

    terms, keep = [], []
    rng = ctx.rng
    for k in range(n):
        w.fresh_db(host="h1")
        gs, gd = w.mkgroup("gs"), w.mkgroup("gd")
        srcs = [w.mknode(None, f"s{j}", gs, stype="F", host="h1", root=f"/nonexistent/s{j}") for j in range(3)]
        dst = w.mknode(None, "d", gd, stype="A", host="h1", root="/nonexistent/d")
        acq = w.mkacq("acq")
        files = [w.mkfile(acq, f"f{j}", None, size_b=10, md5sum="0" * 32) for j in range(rng.randint(1, 3))]
        # a few requests that do not belong to this pass: other group, completed, cancelled
        table = []
        for j in range(rng.randint(1, 8)):
            f_, s_ = rng.choice(files), rng.choice(srcs)
            kind = rng.choice(["pending"] * 6 + ["completed", "cancelled", "elsewhere"])
            r = w.mkreq(f_, s_, gs if kind == "elsewhere" else gd)
            if kind == "completed":
                w.ArchiveFileCopyRequest.update(completed=True).where(w.ArchiveFileCopyRequest.id == r.id).execute()
            elif kind == "cancelled":
                w.ArchiveFileCopyRequest.update(cancelled=True).where(w.ArchiveFileCopyRequest.id == r.id).execute()
            ok = rng.random() < 0.55
            table.append((r.id, f_.id, ok, kind))
        queue = w.StepQueue.make()
        un = U.UpdateableNode(queue, w.StorageNode.get(id=dst.id))
        ug = U.UpdateableGroup(queue=queue, group=w.StorageGroup.get(id=gd.id), nodes=[un], idle=True)
        script = {i: ok for (i, _, ok, _) in table}
        calls = []

        def update_pull(req, _calls=calls, _script=script):
            _calls.append(req.id)
            return _script[req.id]

        ug.update_pull = update_pull
        ug.update()
        pend = [(i, f_, ok) for (i, f_, ok, kind) in table if kind == "pending"]
        ctx.count("group-pass")
        if len({f_ for _, f_, _ in pend}) < len(pend):
            ctx.distinct_add(("pass", repr(pend)))
        disp = [i for i in calls if script[i]]
        terms.append(ctup(clist([f"(PR {cn(i)} {cn(f_)} {cbool(ok)})" for (i, f_, ok) in pend], "preq"), ctup(clist([cn(i) for i in calls], "N"), clist([cn(i) for i in disp], "N"))))
        keep.append({"family": "group-pass", "pending_requests_id_file_dispatchable": pend, "handed_to_update_pull": list(calls), "dispatched": disp})
        if k == 0:
            ctx.sample(keep[-1])
    bad = core.run_cases(ctx, "grouppass", "Corr.Dispatch", "dcase", "dcheck", terms, shard=500, extra_imports=("Model.Dispatch",))
    for b in bad[:3]:
        ctx.broke("correspondence", f"group pass: model and implementation differ on {keep[b]}")
    return [keep[b] for b in bad]
