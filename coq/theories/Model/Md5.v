(* C03: the chunked read loop of util._md5sum_file, over an abstract incremental hash. *)
From Coq Require Import List NArith Bool Arith.
Import ListNotations.

Definition byte := N.

Section Loop.
  Variable bs : nat.            (* block_size       = 256 * 128 *)
  Variable bpc : nat.           (* blocks_per_chunk = 1024      *)

  (* f.read(bs) on a file whose unread part is [rest] *)
  Definition read (rest : list byte) : list byte * list byte := (firstn bs rest, skipn bs rest).

  (* _md5_chunk: for block in iter(lambda: f.read(bs), b""): update(block); count += 1;
                 if count >= bpc: return False
                 return True
     [fed] = blocks handed to md5.update so far, oldest first.  fuel only bounds the recursion. *)
  Fixpoint md5_chunk (fuel count : nat) (rest : list byte) (fed : list (list byte)) : bool * list byte * list (list byte) :=
    match fuel with
    | O => (true, rest, fed)
    | S fuel' =>
        let '(block, rest') := read rest in
        match block with
        | [] => (true, rest', fed)
        | _ => let fed' := fed ++ [block] in
               if bpc <=? S count then (false, rest', fed') else md5_chunk fuel' (S count) rest' fed'
        end
    end.

  (* while not eof: eof = chunk(...) *)
  Fixpoint md5_loop (fuel : nat) (rest : list byte) (fed : list (list byte)) : list (list byte) :=
    match fuel with
    | O => fed
    | S fuel' =>
        let '(eof, rest', fed') := md5_chunk (S (length rest)) 0 rest fed in
        if eof then fed' else md5_loop fuel' rest' fed'
    end.

  Definition blocks_fed (content : list byte) : list (list byte) := md5_loop (S (length content)) content [].
End Loop.

Section Hash.
  Variable state : Type.
  Variable init : state.
  Variable update : state -> list byte -> state.
  (* what a file's digest means: one update with the whole content *)
  Definition hash_of (content : list byte) : state := update init content.
  (* what the loop computes *)
  Definition md5sum_file (bs bpc : nat) (content : list byte) : state :=
    fold_left update (blocks_fed bs bpc content) init.
End Hash.
