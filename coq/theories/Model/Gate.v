(* C19: when auto-verification runs.  One pass of the main loop over a node: update() records in _updated whether the update ran
   (the node's FIFO was empty when the pass started and the I/O class did not cancel it); update_idle() then runs the idle work ---
   auto-verification included --- only if the update ran and the node is idle at that moment.  The walker's cursor moves only then. *)
From Coq Require Import List NArith ZArith Bool.
From Alp Require Import Model.Walker.
Import ListNotations.

Definition after_update (idle_at_start do_update : bool) : bool := idle_at_start && do_update.        (* self._updated *)
Definition idle_work_runs (updated idle_now : bool) : bool := updated && idle_now.
Definition auto_verify_runs (updated idle_now : bool) (auto_verify : Z) : bool := idle_work_runs updated idle_now && (0 <? auto_verify)%Z.

Record pass := { p_idle_at_start : bool; p_do_update : bool; p_idle_after : bool; p_auto_verify : Z; p_table : list N }.
Definition verifies (p : pass) : bool := auto_verify_runs (after_update (p_idle_at_start p) (p_do_update p)) (p_idle_after p) (p_auto_verify p).
(* the batches of successive passes (None: no auto-verification in that pass) and the cursor afterwards *)
Fixpoint passes (cur : N) (ps : list pass) : list (option (list N)) * N :=
  match ps with
  | [] => ([], cur)
  | p :: ps' =>
      if verifies p then
        match get (p_table p) cur (Z.to_nat (p_auto_verify p)) with
        | Some (items, cur') => let '(bs, c) := passes cur' ps' in (Some items :: bs, c)
        | None => let '(bs, c) := passes cur ps' in (Some [] :: bs, c)          (* nothing to verify: the walker is dropped, the cursor is kept here *)
        end
      else let '(bs, c) := passes cur ps' in (None :: bs, c)
  end.
