(* Correspondence checker for C06: (string, implementation rejected?) *)
From Coq Require Import List NArith Bool.
From Alp Require Import Base.Str Model.Path.
Definition case := (str * bool)%type.
Definition check (c : case) : bool := Bool.eqb (invalid_import_path (fst c)) (snd c).

(* remove_filedir: (components below the root, the implementation's rmdir calls relative to the root,
   number of calls outside the root).  The calls must be a prefix of the model's targets. *)
Import ListNotations.
Definition rcase := (list str * list (list str) * N)%type.
Fixpoint list_eqb_str (a b : list str) : bool :=
  match a, b with
  | [], [] => true
  | x :: a', y :: b' => str_eqb x y && list_eqb_str a' b'
  | _, _ => false
  end.
Fixpoint lprefix (a b : list (list str)) : bool :=
  match a, b with
  | [], _ => true
  | x :: a', y :: b' => list_eqb_str x y && lprefix a' b'
  | _, _ => false
  end.
Definition rcheck (c : rcase) : bool :=
  let '(comps, calls, nout) := c in
  N.eqb nout 0 && lprefix calls (rmdir_targets [] (rev comps)).
