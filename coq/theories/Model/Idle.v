(* C11: "a node is reported idle exactly when it has no queued or running task" — UpdateableNode.idle, UpdateableGroup.idle *)
From Coq Require Import List NArith Bool Arith.
From Alp Require Import Base.Str Base.Types.
Import ListNotations.
Local Open Scope N_scope.
(* [size k] = FairMultiFIFOQueue.fifo_size(k): queued plus in-progress items of FIFO k (truthful by the C11 queue theorems) *)
Definition node_idle (size : N -> N) (node_fifo : N) : bool := N.eqb (size node_fifo) 0.
Definition group_idle (size : N -> N) (group_fifo : N) (nodes : option (list N)) : bool :=
  if negb (N.eqb (size group_fifo) 0) then false
  else match nodes with
       | None => false
       | Some ns => forallb (node_idle size) ns
       end.
