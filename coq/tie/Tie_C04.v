From Coq Require Import List NArith ZArith Bool.
From Alp Require Import Base.Str Base.Types Model.Import Model.Watch.
From Run Require Gen_import.
Import ListNotations.
Lemma t_not_file a b : Gen_import.g_not_a_file a b = a || negb b. Proof. reflexivity. Qed.
Lemma t_revive w : Gen_import.g_revive_suspect w = wants_eqb w WY. Proof. destruct w; reflexivity. Qed.
Lemma t_absolute b : Gen_import.g_vet_absolute b = b. Proof. reflexivity. Qed.
Lemma t_marker p : Gen_import.g_vet_marker p = str_eqb p [65; 76; 80; 69; 78; 72; 79; 82; 78; 95; 78; 79; 68; 69]%N. Proof. reflexivity. Qed.
Lemma t_recurse b : Gen_import.g_vet_recurse b = b. Proof. reflexivity. Qed.
(* the watchdog handler *)
Lemma t_is_dotfile p : Gen_import.g_is_dotfile (first1 (basename p)) = is_dotfile p. Proof. reflexivity. Qed.
Lemma t_is_lock_file p : Gen_import.g_is_lock_file (lastn 5 p) (is_dotfile p) = is_lock_file p. Proof. reflexivity. Qed.
Lemma t_on_created d p : handle (Created d p) = if Gen_import.g_on_created d (is_dotfile p) then Some p else None. Proof. reflexivity. Qed.
Lemma t_on_moved d s q : handle (Moved d s q) = if Gen_import.g_on_moved d (is_dotfile q) then Some q else None. Proof. reflexivity. Qed.
Lemma t_on_deleted d p : handle (Deleted d p) = if Gen_import.g_on_deleted d (is_lock_file p) then Some (unlock_target p) else None. Proof. reflexivity. Qed.
