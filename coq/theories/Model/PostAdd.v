(* C16: io/ioutil.py post_add (autosync / autoclean) and StorageGroup.state_on_node. *)
From Coq Require Import List NArith ZArith Bool.
From Alp Require Import Base.Str Base.Types.
Import ListNotations.

Record copy := { c_id : N; c_file : N; c_node : N; c_has : has; c_wants : wants }.
Record req := { r_file : N; r_from : N; r_to : N }.
Record rule := { u_from : N; u_to : N; u_sync : bool; u_clean : bool }.

Fixpoint assoc (n : N) (l : list (N * N)) : N := match l with [] => 0%N | (k, v) :: l' => if N.eqb k n then v else assoc n l' end.

Section PostAdd.
  Variable groups : list (N * N).                    (* node id -> group id *)
  Definition group_of (n : N) : N := assoc n groups.

  (* StorageGroup.state_on_node: Y wins, then M, then X, else N *)
  Definition in_group (g f : N) (c : copy) : bool := N.eqb (c_file c) f && N.eqb (group_of (c_node c)) g.
  Definition state_on_group (cs : list copy) (g f : N) : has :=
    let l := filter (in_group g f) cs in
    if existsb (fun c => has_eqb (c_has c) HY) l then HY
    else if existsb (fun c => has_eqb (c_has c) HM) l then HM
    else if existsb (fun c => has_eqb (c_has c) HX) l then HX else HN.

  (* guards as in the code *)
  Definition lacks_healthy (st : has) : bool := negb (has_eqb st HY).
  Definition sync_edge (cs : list copy) (n f : N) (u : rule) : bool :=
    N.eqb (u_from u) n && negb (N.eqb (u_to u) (group_of n)) && u_sync u
    && lacks_healthy (state_on_group cs (u_to u) f).
  Definition new_reqs (cs : list copy) (rules : list rule) (n f : N) : list req :=
    map (fun u => {| r_file := f; r_from := n; r_to := u_to u |}) (filter (sync_edge cs n f) rules).

  Definition self_loop (u : rule) : bool := N.eqb (group_of (u_from u)) (u_to u).
  Definition clean_edge (n : N) (u : rule) : bool :=
    N.eqb (u_to u) (group_of n) && negb (N.eqb (u_from u) n) && u_clean u && negb (self_loop u).
  Definition released (rules : list rule) (n f : N) (c : copy) : bool :=
    N.eqb (c_file c) f && has_eqb (c_has c) HY && wants_eqb (c_wants c) WY
    && existsb (fun u => clean_edge n u && N.eqb (u_from u) (c_node c)) rules.
  Definition release (c : copy) : copy :=
    {| c_id := c_id c; c_file := c_file c; c_node := c_node c; c_has := c_has c; c_wants := WN |}.

  Definition post_add (rules : list rule) (n f : N) (cs : list copy) (rs : list req) : list copy * list req :=
    (map (fun c => if released rules n f c then release c else c) cs, rs ++ new_reqs cs rules n f).
End PostAdd.
