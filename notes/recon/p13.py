from common import *
import shutil
from click.testing import CliRunner
from alpenhorn.cli import entry
import verif_dbext
tmp, sdb = setup("h1"); verif_dbext._db = sdb
conf = tmp/"conf.yaml"; conf.write_text("extensions:\n  - verif_dbext\ndatabase:\n  path: ':memory:'\n")
def cli(args, input=None):
    extensions._db_ext = None
    r = CliRunner().invoke(entry, ["--test-isolation","-c",str(conf)]+args, input=input); return r.exit_code, r.output.strip()
acq = ArchiveAcq.create(name="acq"); f = ArchiveFile.create(acq=acq, name="f", size_b=5, md5sum="0"*32)
print(cli(["file","modify","acq/f","--md5","a"*32]))
f = ArchiveFile.get(id=f.id); print("after modify --md5 only: size_b =", f.size_b, "md5 =", f.md5sum)
# db init atomicity
sdb2 = pw.SqliteDatabase(":memory:"); verif_dbext._db = sdb2
orig = sdb2.execute_sql; n=[0]
def ex(sql, params=None, *a, **k):
    if sql.startswith("INSERT"): raise pw.OperationalError("injected")
    return orig(sql, params, *a, **k)
sdb2.execute_sql = ex
print(cli(["db","init"]))
del sdb2.execute_sql
print("tables after failed init:", sdb2.get_tables())
print(cli(["db","init"]))
shutil.rmtree(tmp)
