"""C17 recon: for every mutating CLI subcommand, log each write statement with its transaction depth."""
from common import *
import os, json, shutil, datetime
from click.testing import CliRunner
from alpenhorn.cli import entry
import verif_dbext
tmp, sdb = setup("h1"); verif_dbext._db = sdb
conf = tmp/"conf.yaml"; conf.write_text("extensions:\n  - verif_dbext\ndatabase:\n  path: ':memory:'\n")
log = []
orig = sdb.execute_sql
def ex(sql, params=None, *a, **k):
    verb = sql.split()[0]
    if verb != "SELECT": log.append((verb, sql.split()[2 if verb != "UPDATE" else 1].strip('"'), sdb.transaction_depth()))
    return orig(sql, params, *a, **k)
sdb.execute_sql = ex
def cli(args, input=None):
    extensions._db_ext = None; log.clear()
    r = CliRunner().invoke(entry, ["--test-isolation","-c",str(conf)]+args, input=input)
    bad = [l for l in log if l[2] == 0]
    print(f"{' '.join(args):70s} exit={r.exit_code} writes={[(v,t) for v,t,_ in log]} {'OUTSIDE-TXN:'+str(bad) if bad else ''}")
    if r.exit_code not in (0,) and r.exception and not isinstance(r.exception, SystemExit): print("   EXC", repr(r.exception)[:120])
    return r
(tmp/"n1").mkdir()
cli(["group","create","g1"]); cli(["group","create","g2","--notes","x"]); cli(["group","modify","g2","--notes","y"]); cli(["group","rename","g2","g3"])
cli(["node","create","n1","--group","g1","--root",str(tmp/"n1"),"--host","h1","--init","--activate","--field"])
cli(["node","create","n2","--create-group","--archive","--root","/x","--host","h2"])
cli(["node","modify","n2","--min-avail","3"]); cli(["node","rename","n2","n3"]); cli(["node","activate","n3"]); cli(["node","deactivate","n3"]); cli(["node","init","n3"])
cli(["node","scan","n1","--register-new"]); cli(["acq","create","acq"])
cli(["file","create","f1","acq","--md5","0"*32,"--size","3"]); cli(["file","create","f2","acq","--md5","1"*32,"--size","4"])
cli(["file","modify","acq/f1","--size","5"]); cli(["file","import","acq/f1","n1","--register-new"])
cli(["file","state","acq/f1","n1","--set","healthy"]); cli(["file","state","acq/f2","n1","--set","healthy"]); cli(["file","verify","acq/f1","n1"])
cli(["file","sync","acq/f2","--from","n1","--to","n3"]); cli(["file","sync","acq/f2","--cancel"])
cli(["file","clean","acq/f2","--node","n1"]); cli(["file","clean","acq/f2","--cancel"])
cli(["group","autosync","n3","n1"]); cli(["node","autoclean","n1","n3"])
cli(["node","clean","n1","--force"]); cli(["node","clean","n1","--force","--now","--size","1"]); cli(["node","clean","n1","--force","--cancel"])
cli(["node","verify","n1","--force","--all"]); cli(["node","verify","n1","--force","--cancel","--healthy"])
cli(["node","sync","n1","n3","--force"]); cli(["group","sync","n3","n1","--force"]); cli(["group","sync","n3","--all","--cancel","--force"])
cli(["node","clean","n1","--check"]); cli(["node","clean","n1"], input="n\n"); cli(["node","clean","n1"], input="y\n")
shutil.rmtree(tmp)
