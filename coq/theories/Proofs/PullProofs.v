From Coq Require Import List NArith Bool.
From Alp Require Import Base.Str Base.Types Model.Pull.
Import ListNotations.

(* a request is completed only together with a healthy destination record, only after a transport reported success,
   and only if every digest it reported equals the registered one *)
Lemma completed_sound ns t o : p_req_completed (pull_task ns t o) = true ->
  p_dst_copy (pull_task ns t o) = Some HY /\ p_post_add (pull_task ns t o) = true /\ p_dst_file_removed (pull_task ns t o) = false /\
  exists m, o = TOk m /\ m <> MDigest false /\ m <> MMissing /\ ns <> HY /\ t <> TNoTool /\ t <> TNoRoute.
Proof.
  unfold pull_task. destruct ns; cbn [is_y has_eqb]; try discriminate;
    destruct t; cbn; try discriminate; destruct o as [[|[|]|]|cs]; cbn; try discriminate;
    intros _; repeat split; eexists; repeat split; try reflexivity; discriminate.
Qed.

(* if the transfer fails or the digest mismatches (or nothing could be attempted): the request stays pending, no
   healthy destination copy is recorded, the destination path is removed, and the source is flagged iff it may be at fault *)
Lemma failure_clean ns t o : ns <> HY -> p_req_completed (pull_task ns t o) = false ->
  p_req_cancelled (pull_task ns t o) = false /\ p_dst_copy (pull_task ns t o) = None /\ p_post_add (pull_task ns t o) = false /\
  (t <> TNoRoute -> p_dst_file_removed (pull_task ns t o) = true) /\
  (p_src_flagged (pull_task ns t o) = true <-> t <> TNoRoute /\ t <> TNoTool /\ request_done o = VFailed true).
Proof.
  intros Hn. unfold pull_task. destruct ns; try congruence; cbn [is_y has_eqb];
    destruct t; cbn; try (intros _; repeat split; try congruence; intros H; try discriminate; destruct H as (?&?&?); congruence);
    destruct o as [[|[|]|]|[|]]; cbn; try discriminate; intros _; repeat split; try congruence; try discriminate; intros; intuition congruence.
Qed.

Lemma source_flagged_iff o : request_done o = VFailed true <-> o = TFailed true \/ o = TOk (MDigest false) \/ o = TOk MMissing.
Proof. destruct o as [[|[|]|]|[|]]; cbn; split; intros H; try discriminate; try (intuition congruence); auto. Qed.

(* an existing destination file is overwritten (a pull task runs) only if the copy on the receiving node itself is recorded corrupt (X),
   or no copy in the group was recorded healthy/suspect AND no file was found on disk by the search *)
Lemma no_blind_overwrite gs sa ss sr fod gate ns t o p : chain gs sa ss sr fod gate ns t o = CRan p ->
  (gs = HX /\ ns = HX) \/ ((gs = HN \/ gs = HX) /\ fod = false).
Proof.
  unfold chain, update_pull, group_search.
  destruct gs, sa, ss, sr, fod, gate, ns; cbn; intros H; try discriminate H; auto.
Qed.
(* an unregistered file found on disk is marked suspect (to be verified) instead of being overwritten, also when some other node of
   the group holds a corrupt copy *)
Lemma stray_file_is_checked_first gs sa ss sr gate ns t o : (gs = HN \/ gs = HX) -> ns <> HX -> chain gs sa ss sr true gate ns t o <> CCancelled ->
  chain gs sa ss sr true gate ns t o = CSkipped \/ chain gs sa ss sr true gate ns t o = CMarkedSuspect.
Proof.
  unfold chain, update_pull, group_search. intros [->| ->] Hn; destruct sa, ss, sr, gate, ns; cbn; intros H; auto; try (contradiction H; reflexivity); contradiction Hn; reflexivity.
Qed.

(* a pull runs only from an active source whose copy is healthy and ready, into a group that does not hold the file *)
Lemma pull_preconditions gs sa ss sr fod gate ns t o p : chain gs sa ss sr fod gate ns t o = CRan p ->
  sa = true /\ ss = HY /\ sr = true /\ gate = true /\ gs <> HY /\ gs <> HM.
Proof.
  unfold chain, update_pull, group_search.
  destruct gs, sa, ss, sr, fod, gate, ns; cbn; intros H; try discriminate H; repeat split; discriminate.
Qed.

(* routing: hard links only between nodes that are both archive or both not; remote pulls need a known route and a tool *)
Lemma route_facts l rk sa hw hb hr :
  (route l rk sa hw hb hr = THardlink -> l = true /\ sa = true /\ hw = true) /\
  (route l rk sa hw hb hr = TBbcp -> l = false /\ rk = true /\ hb = true) /\
  (route l rk sa hw hb hr = TInternal -> l = true /\ hr = false) /\
  (route l rk sa hw hb hr = TNoTool -> l = false /\ hb = false /\ hr = false) /\
  (route l rk sa hw hb hr = TNoRoute -> l = false /\ rk = false).
Proof. unfold route. destruct l, rk, sa, hw, hb, hr; cbn; repeat split; try discriminate; auto. Qed.

Lemma example_chain :
  chain HN true HY true false true HN THardlink (TOk MTrusted) = CRan (pull_task HN THardlink (TOk MTrusted)) /\
  p_req_completed (pull_task HN THardlink (TOk MTrusted)) = true /\
  chain HN true HY true true true HN THardlink (TOk MTrusted) = CMarkedSuspect /\
  p_src_flagged (pull_task HN TBbcp (TOk (MDigest false))) = true.
Proof. repeat split; reflexivity. Qed.
