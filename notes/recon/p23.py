"""Real FairMultiFIFOQueue under the deterministic scheduler: random schedules, exactly-once / order / exclusivity monitors."""
import sys, random; sys.path.insert(0, "/repo"); sys.path.insert(0, "/root/probe")
import sched2
import alpenhorn.scheduler.queue as Q
from unittest.mock import MagicMock
Q.Metric = MagicMock()          # metrics are not modelled
def run(seed):
    rng = random.Random(seed)
    S = sched2.Sched(lambda r: rng.choice(r))
    th, mono, slp = sched2.fakes(S)
    Q.threading = th; Q.monotonic = mono; Q.sleep = slp
    poplog = []
    class LQ(Q.FairMultiFIFOQueue):
        def _get(self, t):
            r = super()._get(t)
            if r is not None: poplog.append(r)
            return r
    q = LQ()
    puts = []; delivered = []; running = {}; viol = []
    nitems = rng.randint(3, 7)
    plan = [(i, rng.choice("ab"), rng.random() < 0.3, rng.choice([0, 0, 0.5])) for i in range(nitems)]
    def producer():
        for (i, k, ex, w) in plan:
            q.put(i, k, exclusive=ex, wait=w); puts.append((i, k, ex, w))
        return "p"
    def consumer(name):
        def f():
            got = 0
            while True:
                it = q.get(timeout=3)
                if it is None: return got
                item, key = it
                ex = plan[item][2]
                # monitors
                if any(i == item for i, _ in delivered): viol.append(("dup", item))
                if ex and running.get(key): viol.append(("excl-start-while-running", item, dict(running)))
                if any(plan[j][2] for j in running.get(key, [])): viol.append(("start-while-excl-running", item))
                delivered.append((item, key)); running.setdefault(key, []).append(item)
                S.yield_()                                    # "work"
                running[key].remove(item)
                q.task_done(key); got += 1
        return f
    S.spawn("P", producer); S.spawn("C1", consumer("C1")); S.spawn("C2", consumer("C2"))
    res, stuck = S.run()
    # order of immediate puts per key
    for k in "ab":
        imm = [i for (i, kk, ex, w) in plan if kk == k and w == 0]
        got = [i for (i, kk) in poplog if kk == k and plan[i][3] == 0]
        if imm != got: viol.append(("order", k, imm, got))
    if sorted(i for i, _ in delivered) != list(range(nitems)): viol.append(("lost", sorted(i for i, _ in delivered), nitems))
    if stuck: viol.append(("stuck", stuck))
    return viol, len(S.trace), q._total_queued, q._total_inprogress, len(q._deferrals)
bad = 0; steps = 0
for seed in range(1500):
    v, n, a, b, c = run(seed); steps += n
    if v or (a, b, c) != (0, 0, 0):
        bad += 1
        if bad <= 3: print("seed", seed, v, (a, b, c))
print("runs 1500, total scheduling steps", steps, "violating runs", bad)
