#!/usr/bin/python3
"""Stand-in for rsync / bbcp in the simulated world (all 'hosts' share one file system).
Behaviour is scripted by the JSON file named in $VERIF_TOOLS_CONF: {"rsync": {"mode": ...}, "bbcp": {"mode": ...}}.
modes: ok | fail | mkstemp | write_failed | truncate | garbled | wrong_md5 | die_tmp | die_partial | hang"""
import hashlib
import json
import os
import shutil
import sys

tool = os.path.basename(sys.argv[0])
conf = {}
p = os.environ.get("VERIF_TOOLS_CONF")
if p and os.path.exists(p):
    try:
        conf = json.load(open(p)).get(tool, {})
    except Exception:
        conf = {}
mode = conf.get("mode", "ok")
args = [a for a in sys.argv[1:]]
src, dst = args[-2], args[-1]
if ":" in src and not src.startswith("/"):
    src = src.split(":", 1)[1]
log = os.environ.get("VERIF_TOOLS_LOG")
if log:
    with open(log, "a") as f:
        f.write(json.dumps({"tool": tool, "mode": mode, "src": src, "dst": dst}) + "\n")
if mode == "hang":  # never finishes: the caller's time-out kills it
    import time

    time.sleep(30)
    sys.exit(1)
if mode == "fail":
    sys.stderr.write(f"{tool}: link_stat \"{src}\" failed: No such file or directory (2)\n")
    sys.exit(23)
if mode == "mkstemp":
    sys.stderr.write(f"{tool}: mkstemp \"{dst}.XXXXXX\" failed: Permission denied (13)\n")
    sys.exit(23)
if mode == "write_failed":
    sys.stderr.write(f"{tool}: write failed on \"{dst}\": No space left on device (28)\n")
    sys.exit(11)
try:
    data = open(src, "rb").read()
except OSError as e:
    sys.stderr.write(f"{tool}: link_stat \"{src}\" failed: {e}\n")
    sys.exit(23)
out = data[: len(data) // 2] if mode == "truncate" else data
tmp = os.path.join(os.path.dirname(dst), "." + os.path.basename(dst) + ".Xstand")
if mode == "die_tmp":  # killed while writing the temporary file (rsync's temporary names are random: a later run does not reuse it)
    with open(tmp.replace(".Xstand", ".Xdead%d" % os.getpid()), "wb") as f:
        f.write(data[: len(data) // 2] or b"?")
    sys.stderr.write(f"{tool}: received SIGTERM, exiting (20)\n")
    sys.exit(20)
if mode == "die_partial":  # killed while writing in place
    with open(dst, "wb") as f:
        f.write(data[: len(data) // 2] or b"?")
    sys.stderr.write(f"{tool}: received SIGTERM, exiting (20)\n")
    sys.exit(20)
with open(tmp, "wb") as f:
    f.write(out)
os.replace(tmp, dst)
if tool == "bbcp":
    digest = hashlib.md5(data).hexdigest()
    if mode == "wrong_md5":
        digest = "0" * 32
    if mode == "garbled":
        sys.stderr.write("File created; checksum unavailable\n")
    else:
        sys.stderr.write(f"File {dst} created; {len(out)} bytes at 1.0 MB/s\nmd5 {digest} {src}\n")
sys.exit(0)
