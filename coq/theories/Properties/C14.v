(* C14 — Space reservations are balanced and never over-committed. *)
From Coq Require Import List NArith ZArith Bool Arith.
From Alp Require Import Base.Str Base.Types Model.Reserve Proofs.ReserveProofs Model.Worker Proofs.WorkerProofs.
Import ListNotations.
Open Scope Z_scope.

(* For every history of dispatches (any sizes, limits, free-space readings) and task ends: the reserved total
   is exactly twice the sizes of the pulls that are queued or running, and release never raises. *)
Theorem C14_balance : forall evs, sizes_ok evs -> RInv (rrun evs).
Proof. exact balance. Qed.
Print Assumptions C14_balance.
Theorem C14_zero_when_idle : forall evs, sizes_ok evs -> live (rrun evs) = [] -> reserved (rrun evs) = 0.
Proof. exact zero_when_idle. Qed.
Print Assumptions C14_zero_when_idle.
Theorem C14_never_negative : forall evs, sizes_ok evs -> 0 <= reserved (rrun evs) /\ errors (rrun evs) = 0%nat.
Proof. exact never_negative. Qed.
Print Assumptions C14_never_negative.

(* "the task ended" releases exactly once: the release is the first thing a pull task registers, so for every
   continuation of the body (already present, no route, transport failure, digest mismatch, success), every
   database-fault pattern in body and clean-ups, it is started exactly once (the Finish event of the history) *)
Theorem C14_released_exactly_once : forall fault requeue id body rest, no_other rest = true ->
  (forall f i b, In (Reg f i b) rest -> i <> id) ->
  count_occ Nat.eq_dec (started (worker_iteration fault requeue true [] (Reg true id body :: rest))) id = 1%nat.
Proof. exact first_registration_runs_once. Qed.
Print Assumptions C14_released_exactly_once.

(* A transfer is started only if twice its size fits in the free space net of reservations and the node is neither
   below its minimum free space nor at its size limit; a refused dispatch reserves nothing; the transport group's
   "does it fit" test reserves nothing. *)
Theorem C14_gate : forall um om size bavail res, fst (pull_gate um om size bavail res) = true ->
  um = false /\ om = false /\ (forall b, bavail = Some b -> size * factor <= b - res) /\
  snd (pull_gate um om size bavail res) = res + size * factor.
Proof. exact gate_sound. Qed.
Print Assumptions C14_gate.
(* ... on the quantities themselves: free space known => not below the minimum; a positive size limit => the node's total is strictly
   below it (a node exactly at its limit accepts nothing) *)
Theorem C14_gate_quantities : forall avail minv total maxv size bavail res, fst (pull_gate_n avail minv total maxv size bavail res) = true ->
  (forall a, avail = Some a -> minv <= a) /\ (forall m, maxv = Some m -> 0 < m -> total < m) /\
  (forall b, bavail = Some b -> size * factor <= b - res).
Proof. exact gate_sound_n. Qed.
Print Assumptions C14_gate_quantities.
Theorem C14_at_limit_refused : forall avail minv total m size bavail res, 0 < m -> m <= total -> fst (pull_gate_n avail minv total (Some m) size bavail res) = false.
Proof. exact gate_at_limit. Qed.
Print Assumptions C14_at_limit_refused.
Theorem C14_refusal_reserves_nothing : forall um om size bavail res,
  fst (pull_gate um om size bavail res) = false -> snd (pull_gate um om size bavail res) = res.
Proof. exact gate_refusal_keeps. Qed.
Print Assumptions C14_refusal_reserves_nothing.
Theorem C14_fits_reserves_nothing : forall size bavail res, snd (reserve size true bavail res) = res.
Proof. exact check_only_never_reserves. Qed.
Print Assumptions C14_fits_reserves_nothing.

Example C14_example : reserved (rrun ex_evs) = 0 /\ live (rrun ex_evs) = [] /\ sizes_ok ex_evs.
Proof. exact example_history. Qed.
