From Coq Require Import List NArith ZArith Bool.
From Alp Require Import Base.Str Base.Types Model.Pull.
From Run Require Gen_pull.
Lemma t_up_y s : Gen_pull.g_up_dst_y s = is_y s. Proof. destruct s; reflexivity. Qed.
Lemma t_up_m s : Gen_pull.g_up_dst_m s = is_m s. Proof. destruct s; reflexivity. Qed.
Lemma t_up_x s : Gen_pull.g_up_dst_x s = is_x s. Proof. destruct s; reflexivity. Qed.
Lemma t_up_n s : Gen_pull.g_up_dst_n s = is_n s. Proof. destruct s; reflexivity. Qed.
Lemma t_up_inactive b : Gen_pull.g_up_src_inactive b = negb b. Proof. reflexivity. Qed.
Lemma t_up_gone s : Gen_pull.g_up_src_gone s = src_gone s. Proof. destruct s; reflexivity. Qed.
Lemma t_up_src_m s : Gen_pull.g_up_src_m s = is_m s. Proof. destruct s; reflexivity. Qed.
Lemma t_up_not_ready b : Gen_pull.g_up_not_ready b = negb b. Proof. reflexivity. Qed.
Lemma t_up_force s b : Gen_pull.g_up_force s b = is_x s && b. Proof. destruct s; reflexivity. Qed.
Lemma t_gs_in_group s : Gen_pull.g_gs_in_group s = already_in_group s. Proof. destruct s; reflexivity. Qed.
Lemma t_pa_present s : Gen_pull.g_pa_present s = is_y s. Proof. destruct s; reflexivity. Qed.
Lemma t_pa_same_arch a b : Gen_pull.g_pa_same_arch a b = Bool.eqb a b. Proof. destruct a, b; reflexivity. Qed.
Lemma t_done_failed b : Gen_pull.g_done_failed b = negb b. Proof. reflexivity. Qed.
Lemma t_done_flag b : Gen_pull.g_done_flag_source b = b. Proof. reflexivity. Qed.
Lemma t_done_mismatch b : Gen_pull.g_done_mismatch b = negb b. Proof. reflexivity. Qed.
