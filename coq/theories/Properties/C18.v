(* C18 — CLI clean/verify/sync select exactly the documented records, idempotently.
   The selections below are the model of the commands (tied to the code by correspondence); the theorems hold for
   every index and every option combination. *)
From Coq Require Import List NArith ZArith Bool.
From Alp Require Import Base.Str Base.Types Model.CliSelect Proofs.CliSelectProofs.
Import ListNotations.

(* --size: the copies taken are the not-yet-scheduled ones of the shortest prefix (record order) of the candidates
   whose running size reaches the budget — already scheduled copies count toward the budget *)
Theorem C18_size_budget : forall i goal size l total,
  walk i goal size total l = map k_id (filter (fun c => negb (satisfied goal (k_wants c))) (prefix_until i size total l)).
Proof. exact walk_is_prefix. Qed.
Print Assumptions C18_size_budget.

(* Repeating the same command makes no further change: the --target test leaves out the copy on the node being cleaned
   (repair F-C18d), so the update never feeds back into the selection; ids are unique (primary key) *)
Theorem C18_clean_idempotent : forall o i, NoDup (map k_id (copies i)) -> clean_select o (clean_apply o i) = [].
Proof. exact clean_idempotent_always. Qed.
Print Assumptions C18_clean_idempotent.
Theorem C18_clean_target_stable : forall o i, NoDup (map k_id (copies i)) -> forall c, target_ok o (clean_apply o i) c = target_ok o i c.
Proof. exact target_stable_always. Qed.
Print Assumptions C18_clean_target_stable.
Theorem C18_verify_idempotent : forall o i, verify_select o (verify_apply o i) = [].
Proof. exact verify_idempotent. Qed.
Print Assumptions C18_verify_idempotent.
Theorem C18_sync_idempotent : forall o i, sync_select o (sync_apply o i) = [].
Proof. exact sync_idempotent. Qed.
Print Assumptions C18_sync_idempotent.
Theorem C18_cancel_idempotent : forall o i, cancel_select o (cancel_apply o i) = [].
Proof. exact cancel_idempotent. Qed.
Print Assumptions C18_cancel_idempotent.
Theorem C18_file_clean_idempotent : forall file node goal i,
  fclean_apply file node goal (fclean_apply file node goal i) = fclean_apply file node goal i.
Proof. exact fclean_idempotent. Qed.
Print Assumptions C18_file_clean_idempotent.

(* a repeated node or group sync never creates a second pending request for the same file, source and destination *)
Theorem C18_no_duplicate_request : forall o i, NoDup (map f_id (files i)) ->
  (forall n g f, (pending_count (reqs i) n g f <= 1)%nat) ->
  forall n g f, (pending_count (reqs (sync_apply o i)) n g f <= 1)%nat.
Proof. exact sync_no_duplicate. Qed.
Print Assumptions C18_no_duplicate_request.

(* --days as implemented is not the documented filter "registered more than COUNT days ago" (known finding KF-C18a) *)
Theorem C18_days_refuted : clean_select kf_opts kf_idx = [2%N] /\
  map k_id (filter (fun c => days_documented kf_opts kf_idx (k_file c)) (copies kf_idx)) = [1%N].
Proof. exact days_refuted. Qed.
Print Assumptions C18_days_refuted.

Example C18_example : clean_select ex_opts ex_idx = [2%N] /\ clean_select ex_opts (clean_apply ex_opts ex_idx) = [].
Proof. exact example_clean. Qed.
