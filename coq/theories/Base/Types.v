(* Shared index vocabulary: copy states, node types, small helpers used by translated guards. *)
From Coq Require Import List NArith ZArith Bool.
From Alp Require Import Base.Str.
Import ListNotations.

Inductive has := HY | HM | HX | HN.      (* ArchiveFileCopy.has_file: present, suspect, corrupt, absent *)
Inductive wants := WY | WM | WN.         (* wants_file: wanted, removable, released *)
Inductive stype := SA | ST | SF.         (* StorageNode.storage_type: archive, transport, field *)

Definition has_eqb (a b : has) : bool :=
  match a, b with HY, HY | HM, HM | HX, HX | HN, HN => true | _, _ => false end.
Definition wants_eqb (a b : wants) : bool :=
  match a, b with WY, WY | WM, WM | WN, WN => true | _, _ => false end.
Definition stype_eqb (a b : stype) : bool :=
  match a, b with SA, SA | ST, ST | SF, SF => true | _, _ => false end.

Lemma has_eqb_eq a b : has_eqb a b = true <-> a = b.
Proof. destruct a, b; cbn; split; congruence. Qed.
Lemma wants_eqb_eq a b : wants_eqb a b = true <-> a = b.
Proof. destruct a, b; cbn; split; congruence. Qed.
Lemma stype_eqb_eq a b : stype_eqb a b = true <-> a = b.
Proof. destruct a, b; cbn; split; congruence. Qed.

(* Python truthiness of an Optional[int] *)
Definition optZ_truthy (o : option Z) : bool := match o with None => false | Some z => negb (Z.eqb z 0) end.
Definition optZ_eqb (a b : option Z) : bool :=
  match a, b with None, None => true | Some x, Some y => Z.eqb x y | _, _ => false end.
Definition optstr_eqb (a b : option str) : bool :=
  match a, b with None, None => true | Some x, Some y => str_eqb x y | _, _ => false end.
Definition optN_eqb (a b : option N) : bool :=
  match a, b with None, None => true | Some x, Some y => N.eqb x y | _, _ => false end.

Fixpoint list_eqb {A} (eqb : A -> A -> bool) (a b : list A) : bool :=
  match a, b with
  | [], [] => true
  | x :: a', y :: b' => eqb x y && list_eqb eqb a' b'
  | _, _ => false
  end.
Lemma list_eqb_eq {A} (eqb : A -> A -> bool) :
  (forall x y, eqb x y = true <-> x = y) -> forall a b, list_eqb eqb a b = true <-> a = b.
Proof.
  intros H a; induction a as [|x a IH]; destruct b as [|y b]; cbn; try (split; congruence).
  rewrite andb_true_iff, H, IH. split; [intros [-> ->]; reflexivity | intros E; injection E; auto].
Qed.
