(* C17: the check-confirm-update pattern of the CLI and the transaction shape of commands. *)
From Coq Require Import List Arith Bool.
From Alp Require Import Base.Txn.
Import ListNotations.

Inductive cevent := CallCheck | AskConfirm | CallUpdate.

(* cli.cli.check_then_update(do_check, do_update, func, ...): the calls it makes, in order *)
Definition check_then_update (do_check do_update confirmed : bool) : list cevent :=
  if do_check then
    CallCheck :: (if negb do_update then [] else AskConfirm :: (if negb confirmed then [] else if do_update then [CallUpdate] else []))
  else if do_update then [CallUpdate] else [].

(* cli.options.check_if_from_stdin(path, check, force) with path == "-" as a boolean *)
Definition check_if_from_stdin (is_dash check force : bool) : bool :=
  if check || force then check else if is_dash then true else false.

(* how the commands call it: do_check = not force, do_update = not check *)
Definition command_events (is_dash check force confirmed : bool) : list cevent :=
  let check' := check_if_from_stdin is_dash check force in
  check_then_update (negb force) (negb check') confirmed.

(* a command's statements grouped into commit units: a statement outside any transaction commits by itself,
   an atomic() block commits as a whole *)
Section Units.
  Variable index : Type.
  Inductive unit_ := Auto (s : Txn.stmt index) | Block (l : list (Txn.stmt index)).
  Definition unit_stmts (u : unit_) : list (Txn.stmt index) := match u with Auto s => [s] | Block l => l end.
  Definition unit_writes (u : unit_) : bool := negb (Nat.eqb (writes index (unit_stmts u)) 0).

  (* run units in order; the fault is at the k-th statement overall; a unit is atomic *)
  Fixpoint run_units (us : list unit_) (k : option nat) (i : index) : index :=
    match us with
    | [] => i
    | u :: rest =>
        let n := length (unit_stmts u) in
        match k with
        | Some j => if Nat.ltb j n then run_atomic index (unit_stmts u) (Some j) i       (* fault inside this unit: abort *)
                    else run_units rest (Some (j - n)) (run_atomic index (unit_stmts u) None i)
        | None => run_units rest None (run_atomic index (unit_stmts u) None i)
        end
    end.
  Definition writing_units (us : list unit_) : nat := length (filter unit_writes us).
End Units.
Arguments Auto {index} s.
Arguments Block {index} l.
