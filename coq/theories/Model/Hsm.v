(* C20: io/lfs.py hsm_state / hsm_restoring parsing, and io/lustrehsm.py residency discipline. *)
From Coq Require Import List NArith ZArith Bool Arith.
From Alp Require Import Base.Str Base.Types.
Import ListNotations.
Open Scope N_scope.

Inductive hsm := Missing | Unarchived | Restored | Restoring | Released.
Definition hsm_eqb (a b : hsm) : bool :=
  match a, b with Missing, Missing | Unarchived, Unarchived | Restored, Restored | Restoring, Restoring | Released, Released => true | _, _ => false end.

Definition w_archived : str := [97; 114; 99; 104; 105; 118; 101; 100].    (* "archived" *)
Definition w_released : str := [114; 101; 108; 101; 97; 115; 101; 100].   (* "released" *)
Definition w_restore : str := [82; 69; 83; 84; 79; 82; 69].               (* "RESTORE" *)
Definition colon : N := 58.

(* stdout[len(path):] when stdout.startswith(path + ":") *)
Definition strip_path (path stdout : str) : option str :=
  if prefixb (path ++ [colon]) stdout then Some (skipn (length path) stdout) else None.

(* LFS.hsm_restoring on the output of `lfs hsm_action` (None = command failed) *)
Definition hsm_restoring (path : str) (action_out : str) : bool :=
  infixb w_restore (match strip_path path action_out with Some s => s | None => action_out end).

(* LFS.hsm_state: [state_out] = output of `lfs hsm_state` (exit 0), [restoring] = answer of hsm_restoring when asked
   (None = that command failed).  None = parse error. *)
Definition hsm_state (path : str) (state_out : str) (restoring : option bool) : option hsm :=
  match strip_path path state_out with
  | None => None
  | Some s =>
      if negb (infixb w_archived s) then Some Unarchived
      else if negb (infixb w_released s) then Some Restored
      else match restoring with Some true => Some Restoring | _ => Some Released end
  end.

(* ---- _restore_wait bookkeeping: the _restoring set and the _restore_start dict ---- *)
Inductive rr := RFalse | RNone | RTrue.                          (* result of lfs.hsm_restore *)
Inductive ret := WaitMore | Ready | Failed | KeyErr.              (* True / False / None / a KeyError escaping *)
Record bk := { restoring : list N; start : list (N * Z) }.
Definition mem (x : N) (l : list N) : bool := existsb (N.eqb x) l.
Definition has_key (x : N) (d : list (N * Z)) : bool := existsb (fun p => N.eqb x (fst p)) d.
Definition discard (x : N) (l : list N) : list N := filter (fun y => negb (N.eqb x y)) l.
Definition del (x : N) (d : list (N * Z)) : list (N * Z) := filter (fun p => negb (N.eqb x (fst p))) d.
Definition add (x : N) (now : Z) (b : bk) : bk :=
  if mem x (restoring b) then b else {| restoring := x :: restoring b; start := (x, now) :: del x (start b) |}.
Definition pop_both (x : N) (b : bk) : bk := {| restoring := discard x (restoring b); start := del x (start b) |}.
Definition del_strict (x : N) (b : bk) : option bk :=               (* `del d[x]` raises KeyError when absent *)
  if has_key x (start b) then Some {| restoring := discard x (restoring b); start := del x (start b) |} else None.

Definition restore_wait (id : N) (now : Z) (st : option hsm) (res : rr) (b : bk) : bk * ret :=
  match st with
  | None | Some Missing => (pop_both id b, Failed)
  | Some Restoring => (add id now b, WaitMore)
  | Some Released =>
      let b1 := add id now b in
      match res with
      | RFalse => match del_strict id b1 with Some b2 => (b2, Failed) | None => (b1, KeyErr) end
      | RNone | RTrue => (b1, WaitMore)
      end
  | Some _ =>
      if mem id (restoring b)
      then match del_strict id b with Some b2 => (b2, Ready) | None => (b, KeyErr) end
      else (b, Ready)
  end.
Definition issues_restore (st : option hsm) : bool := match st with Some Released => true | _ => false end.

(* ---- gates: hashing / opening / offering as a source only while resident ---- *)
Definition resident (s : hsm) : bool := hsm_eqb s Restored || hsm_eqb s Unarchived.
Definition may_open (st : option hsm) : bool := match st with Some s => resident s | None => false end.
Definition may_hash (r : ret) : bool := match r with Ready => true | _ => false end.      (* check_async runs iff _restore_wait said False *)
Definition ready_after_pull_task (r : ret) : bool := match r with Ready => true | _ => false end.

(* ---- idle_update: align the ready flag (and presence) with what the file system reports ---- *)
Definition align (st : option hsm) (has_ ready : bool * bool) : unit := tt.
Definition idle_align (st : option hsm) (ready : bool) : option (bool (*has_file := N*) * bool (*ready afterwards*)) :=
  match st with
  | None => None                                                  (* state unknown: row untouched *)
  | Some Missing => Some (true, false)
  | Some Released | Some Restoring => Some (false, false)
  | Some _ => Some (false, true)
  end.

(* ---- release_files: candidates in last_update order; (id, size, healthy, ready, state) ---- *)
Record rcand := { rc_id : N; rc_size : Z; rc_healthy : bool; rc_ready : bool; rc_state : option hsm }.
Definition releasable (c : rcand) : bool :=
  rc_healthy c && rc_ready c && (match rc_state c with Some Restored => true | _ => false end).
Fixpoint release_walk (needed total : Z) (l : list rcand) : list N :=
  match l with
  | [] => []
  | c :: l' => if releasable c then
                 let total' := (total + rc_size c)%Z in rc_id c :: (if (needed <=? total')%Z then [] else release_walk needed total' l')
               else release_walk needed total l'
  end.
Definition release_files (avail : option Z) (headroom : Z) (l : list rcand) : list N :=
  match avail with
  | None => []
  | Some a => let needed := (headroom - a)%Z in if (needed <=? 0)%Z then [] else release_walk needed 0 l
  end.

(* ---- run_lfs outcomes and the two LFS wrappers that combine them ---- *)
Inductive cmdres := CFail | CTimeout | CMissing | COut (s : str).
Definition w_nosuch : str := [78; 111; 32; 115; 117; 99; 104; 32; 102; 105; 108; 101; 32; 111; 114; 32; 100; 105; 114; 101; 99; 116; 111; 114; 121].  (* "No such file or directory" *)
(* LFS.run_lfs on what run_command returned: (exit status or None after a time-out, stdout, stderr) *)
Definition run_lfs (r : option Z * str * str) : cmdres :=
  let '(ret, out, err) := r in
  match ret with
  | None => CTimeout
  | Some 0%Z => COut out
  | Some _ => if infixb w_nosuch err then CMissing else CFail
  end.
Definition lfs_hsm_state (path : str) (rs ra : cmdres) : option hsm :=
  match rs with
  | CFail | CTimeout => None
  | CMissing => Some Missing
  | COut s => hsm_state path s (match ra with COut a => Some (hsm_restoring path a) | _ => None end)
  end.
Definition lfs_hsm_restore (st : option hsm) (r : cmdres) : rr :=
  match st with
  | Some Missing => RFalse
  | Some Released => match r with CMissing => RFalse | CFail | CTimeout => RNone | COut _ => RTrue end
  | _ => RTrue
  end.

(* ---- a history of _restore_wait calls (any files, any answers), from the empty bookkeeping ---- *)
Record call := { k_id : N; k_now : Z; k_state : option hsm; k_res : rr }.
Definition empty_bk : bk := {| restoring := []; start := [] |}.
Definition do_call (b : bk) (c : call) : bk := fst (restore_wait (k_id c) (k_now c) (k_state c) (k_res c) b).
Definition answer (b : bk) (c : call) : ret := snd (restore_wait (k_id c) (k_now c) (k_state c) (k_res c) b).
Fixpoint run_calls (b : bk) (cs : list call) : bk * list (N * ret) :=
  match cs with
  | [] => (b, [])
  | c :: cs' => let '(b', out) := run_calls (do_call b c) cs' in (b', (k_id c, answer b c) :: out)
  end.
(* the last answer given about file f, if any *)
Fixpoint last_answer (f : N) (out : list (N * ret)) : option ret :=
  match out with
  | [] => None
  | (i, r) :: out' => match last_answer f out' with Some r' => Some r' | None => if N.eqb i f then Some r else None end
  end.
