(* Byte strings as lists of N, with the Python str operations the translator emits. *)
From Coq Require Import List NArith Bool Lia.
Import ListNotations.
Open Scope N_scope.
Local Arguments N.eqb : simpl never.

Definition str := list N.

Fixpoint str_eqb (a b : str) : bool :=
  match a, b with
  | [], [] => true
  | x :: a', y :: b' => N.eqb x y && str_eqb a' b'
  | _, _ => false
  end.
(* pattern first: [prefixb p s] is Python's [s.startswith(p)] *)
Fixpoint prefixb (p s : str) : bool :=
  match p, s with
  | [], _ => true
  | x :: p', y :: s' => N.eqb x y && prefixb p' s'
  | _ :: _, [] => false
  end.
(* [infixb p s] is Python's [p in s] *)
Fixpoint infixb (p s : str) : bool :=
  prefixb p s || match s with [] => false | _ :: s' => infixb p s' end.
(* [suffixb p s] is Python's [s.endswith(p)] *)
Fixpoint suffixb (p s : str) : bool :=
  str_eqb s p || match s with [] => false | _ :: s' => suffixb p s' end.

Definition is_none {A} (o : option A) : bool := match o with None => true | Some _ => false end.

Lemma str_eqb_eq a b : str_eqb a b = true <-> a = b.
Proof.
  revert b; induction a as [|x a IH]; destruct b as [|y b]; cbn; try (split; congruence).
  rewrite andb_true_iff, N.eqb_eq, IH. split; [intros [-> ->]; reflexivity | intros H; injection H; auto].
Qed.
Lemma str_eqb_refl a : str_eqb a a = true.
Proof. apply str_eqb_eq; reflexivity. Qed.
Lemma str_eqb_sym a b : str_eqb a b = str_eqb b a.
Proof.
  destruct (str_eqb a b) eqn:E.
  - apply str_eqb_eq in E; subst; symmetry; apply str_eqb_refl.
  - destruct (str_eqb b a) eqn:E'; [|reflexivity]. apply str_eqb_eq in E'; subst. rewrite str_eqb_refl in E; discriminate.
Qed.
Lemma str_eqb_neq a b : str_eqb a b = false <-> a <> b.
Proof.
  split.
  - intros E ->. rewrite str_eqb_refl in E; discriminate.
  - intros H. destruct (str_eqb a b) eqn:E; [|reflexivity]. apply str_eqb_eq in E. contradiction.
Qed.

Lemma prefixb_app p s : prefixb p (p ++ s) = true.
Proof. induction p as [|x p IH]; cbn; [reflexivity|]. rewrite N.eqb_refl, IH; reflexivity. Qed.
Lemma prefixb_spec p s : prefixb p s = true <-> exists t, s = p ++ t.
Proof.
  revert s; induction p as [|x p IH]; intros s; cbn.
  - split; [intros _; exists s; reflexivity | reflexivity].
  - destruct s as [|y s]; [split; [discriminate | intros [t Ht]; discriminate]|].
    rewrite andb_true_iff, N.eqb_eq, IH. split.
    + intros [-> [t ->]]. exists t; reflexivity.
    + intros [t Ht]. injection Ht as -> ->. split; [reflexivity | exists t; reflexivity].
Qed.

(* indices of the cases on which a checker returns false (used by every generated Cases file) *)
Fixpoint bad_idx_from {A} (chk : A -> bool) (i : N) (l : list A) : list N :=
  match l with
  | [] => []
  | x :: l' => if chk x then bad_idx_from chk (N.succ i) l' else i :: bad_idx_from chk (N.succ i) l'
  end.
Definition bad_idx {A} (chk : A -> bool) (l : list A) : list N := bad_idx_from chk 0 l.
