(* C10 — Database faults are contained. *)
From Coq Require Import List NArith ZArith Bool Arith.
From Alp Require Import Base.Txn Model.Worker Proofs.WorkerProofs.
Import ListNotations.

(* For every task body (statements, clean-up registrations), every set of statements that raise
   OperationalError — in the body and in any clean-up, single or repeated — a delivery of the task to a worker:
   never aborts the daemon; releases its queue slot exactly once; starts every clean-up registered so far exactly
   once, in order (none on a yielding step, which keeps them for later); and a fresh copy is queued iff the
   worker exits and the task asked for it (event-triggered imports). *)
Theorem C10_contained : forall fault requeue final dq0 acts, no_other acts = true ->
  let r := worker_iteration fault requeue final dq0 acts in
  global_abort r = false /\ task_done_calls r = 1 /\
  (requeued_self r = true -> started r = [] /\ left_over r = snd (run_body fault acts dq0) /\ worker_exits r = false) /\
  (requeued_self r = false -> started r = map cl_id (snd (run_body fault acts dq0)) /\ left_over r = []) /\
  (worker_exits r = true -> requeued_copy r = requeue) /\ (worker_exits r = false -> requeued_copy r = false).
Proof. exact containment. Qed.
Print Assumptions C10_contained.

(* the worker exits (and is replaced) exactly when a database fault was hit *)
Theorem C10_exits_iff_fault : forall fault requeue final dq0 acts, no_other acts = true ->
  worker_exits (worker_iteration fault requeue final dq0 acts) = true <->
    fst (run_body fault acts dq0) = DbErr \/
    (fst (run_body fault acts dq0) = NoExc /\ final = true /\ fst (fst (do_cleanup fault (snd (run_body fault acts dq0)))) = true).
Proof. exact exits_iff_fault. Qed.
Print Assumptions C10_exits_iff_fault.
Theorem C10_worker_replaced : forall aborting alive, aborting = false ->
  Forall (fun b => b = true) (pool_check aborting alive) /\ length (pool_check aborting alive) = length alive.
Proof. exact pool_replaces. Qed.
Print Assumptions C10_worker_replaced.

(* the space reservation (first registration of a pull) is released exactly once *)
Theorem C10_reservation_released : forall fault requeue id body rest, no_other rest = true ->
  (forall f i b, In (Reg f i b) rest -> i <> id) ->
  count_occ Nat.eq_dec (started (worker_iteration fault requeue true [] (Reg true id body :: rest))) id = 1.
Proof. exact first_registration_runs_once. Qed.
Print Assumptions C10_reservation_released.

(* no half-applied multi-statement update: a block run under atomic() with a fault at any statement leaves the
   index as it was or as the complete block leaves it; so does any script with at most one write *)
Theorem C10_txn_all_or_nothing : forall (index : Type) (l : list (Txn.stmt index)) k i,
  run_atomic index l k i = i \/ run_atomic index l k i = run_atomic index l None i.
Proof. exact atomic_all_or_nothing. Qed.
Print Assumptions C10_txn_all_or_nothing.
Theorem C10_single_write : forall (index : Type) (l : list (Txn.stmt index)) k i, writes index l <= 1 ->
  run_plain index l k i = i \/ run_plain index l k i = run_plain index l None i.
Proof. exact plain_single_write. Qed.
Print Assumptions C10_single_write.

(* a statement outside a transaction on an auto-connecting database is retried once on a fresh connection before
   the failure is reported; inside a transaction (or without autoconnect) it is reported at once *)
Theorem C10_retry_once : forall autoconnect in_txn f1 f2,
  (in_txn = false /\ autoconnect = true ->
     fst (execute_sql autoconnect in_txn f1 f2) <= 2 /\ snd (execute_sql autoconnect in_txn f1 f2) = f1 && f2 /\
     (f1 = true -> fst (execute_sql autoconnect in_txn f1 f2) = 2)) /\
  (in_txn = true \/ autoconnect = false ->
     fst (execute_sql autoconnect in_txn f1 f2) = 1 /\ snd (execute_sql autoconnect in_txn f1 f2) = f1).
Proof. exact retry_once. Qed.
Print Assumptions C10_retry_once.

Example C10_example :
  let r := worker_iteration (fun s => Nat.eqb s 3 || Nat.eqb s 11) true true [] ex_acts in
  started r = [9; 7; 8] /\ task_done_calls r = 1 /\ worker_exits r = true /\ global_abort r = false /\ requeued_copy r = true.
Proof. exact example_worker. Qed.
