(* T1 for C15: guards translated from daemon/update.py and db/storage.py equal the model's guards. *)
From Coq Require Import List NArith ZArith Bool Lia ZifyBool.
From Alp Require Import Base.Str Base.Types Model.Select.
From Run Require Gen_select.
Open Scope Z_scope.
Lemma tie_discretionary u a : Gen_select.g_discretionary u a = discretionary u a.
Proof. reflexivity. Qed.
Lemma tie_skip_removable w n : Gen_select.g_skip_removable w n = skip_removable w n.
Proof. unfold Gen_select.g_skip_removable, skip_removable. destruct w; cbn; reflexivity. Qed.
Lemma tie_df1 w : Gen_select.g_df_discretionary w = df_discretionary w.
Proof. destruct w; reflexivity. Qed.
Lemma tie_df2 w : Gen_select.g_df_released w = df_released w.
Proof. destruct w; reflexivity. Qed.
Lemma tie_positive n : Gen_select.g_need_positive n = (0 <? n).
Proof. reflexivity. Qed.
Lemma tie_credit_copy s : Gen_select.g_credit_copy s = optZ_truthy s.
Proof. reflexivity. Qed.
Lemma tie_credit_file s : Gen_select.g_credit_file s = optZ_truthy s.
Proof. reflexivity. Qed.
Lemma tie_batch_full n : Gen_select.g_batch_full n = batch_full n.
Proof. reflexivity. Qed.
Lemma tie_flush n : Gen_select.g_flush n = (0 <? n).
Proof. reflexivity. Qed.
Lemma tie_under_min_none : Gen_select.g_avail_unknown (@None Z) = true.
Proof. reflexivity. Qed.
Lemma tie_under_min a m : Gen_select.g_under_min a m = under_min (Some a) m.
Proof. reflexivity. Qed.
(* the byte shortfall is linear in the GiB difference with factor 2^30 (the model counts GiB in 1024ths) *)
Lemma tie_shortfall m a : Gen_select.g_shortfall m a = 1024 * shortfall (Some a) m.
Proof. unfold Gen_select.g_shortfall, shortfall. lia. Qed.
