(* Correspondence for C17 *)
From Coq Require Import List NArith Arith Bool.
From Alp Require Import Base.Str Base.Types Base.Txn Model.Cli.
Import ListNotations.
(* (file list is "-", --check, --force, confirmed at the prompt | was the update phase run) *)
Definition ecase := (bool * bool * bool * bool * bool)%type.
Definition echeck (c : ecase) : bool :=
  let '(d, ch, f, conf, updated) := c in
  Bool.eqb (existsb (fun e => match e with CallUpdate => true | _ => false end) (command_events d ch f conf)) updated.
(* observed statement log of one command, grouped into commit units; true = the statement writes *)
Definition ucase := list (list bool).
Definition to_unit (l : list bool) : unit_ nat :=
  Block (map (fun b : bool => if b then Write (fun n => S n) else Read) l).
Definition ucheck (c : ucase) : bool := Nat.leb (writing_units nat (map to_unit c)) 1.
