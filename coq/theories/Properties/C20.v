(* C20 — HSM residency discipline on Lustre-HSM nodes. *)
From Coq Require Import List NArith ZArith Bool.
From Alp Require Import Base.Str Base.Types Model.Hsm Proofs.HsmProofs.
Import ListNotations.

(* "for any well-formed lfs output", "paths containing the state keywords": whatever bytes the path consists of, the state
   read from "<path>:<flags>" depends on the flags alone, and so does the answer to "is a restore running" *)
Theorem C20_state_depends_on_flags_only : forall path flags r,
  hsm_state path (path ++ colon :: flags) r = Some (classify (infixb w_archived flags) (infixb w_released flags) r).
Proof. exact hsm_state_prefix_robust. Qed.
Print Assumptions C20_state_depends_on_flags_only.
Theorem C20_restoring_depends_on_action_only : forall path act, hsm_restoring path (path ++ colon :: act) = infixb w_restore act.
Proof. exact hsm_restoring_prefix_robust. Qed.
Print Assumptions C20_restoring_depends_on_action_only.
(* the test as it was before the repair recorded as F-C20a does not have this property *)
Theorem C20_old_restoring_refuted : exists path act, infixb w_restore act = false /\ old_hsm_restoring (path ++ colon :: act) = true.
Proof. exact old_restoring_refuted. Qed.
Print Assumptions C20_old_restoring_refuted.

(* restore bookkeeping, one call: for every reported state and every outcome of the restore request *)
Theorem C20_restore_wait_step : forall id now st res b, BInv b ->
  let '(b', r) := restore_wait id now st res b in
  BInv b' /\ r <> KeyErr /\
  ((r = Ready \/ r = Failed) -> mem id (restoring b') = false /\ has_key id (start b') = false) /\
  (r = WaitMore -> mem id (restoring b') = true).
Proof. exact restore_wait_inv. Qed.
Print Assumptions C20_restore_wait_step.
(* ... and every history of calls, about any files, in any order *)
Theorem C20_bookkeeping_cleared_on_every_outcome : forall cs,
  let '(b', out) := run_calls empty_bk cs in
  BInv b' /\ (forall i r, In (i, r) out -> r <> KeyErr) /\
  (forall f, mem f (restoring b') = true -> last_answer f out = Some WaitMore).
Proof.
  intros cs. pose proof (run_calls_inv cs empty_bk binv_empty) as H. destruct (run_calls empty_bk cs) as [b' out].
  destruct H as (H1 & H2 & H3). split; [exact H1|]. split; [exact H2|]. intros f Hf. specialize (H3 f Hf).
  destruct (last_answer f out); [rewrite H3; reflexivity | discriminate H3].
Qed.
Print Assumptions C20_bookkeeping_cleared_on_every_outcome.

(* a file is hashed, reported ready or opened only when the file system says it is resident *)
Theorem C20_ready_only_when_resident : forall id now st res b, snd (restore_wait id now st res b) = Ready -> may_open st = true.
Proof. exact ready_only_when_resident. Qed.
Print Assumptions C20_ready_only_when_resident.
Theorem C20_open_only_when_resident : forall st, may_open st = true <-> st = Some Restored \/ st = Some Unarchived.
Proof. exact open_only_when_resident. Qed.
Print Assumptions C20_open_only_when_resident.

(* release: only healthy, ready, fully restored copies; exactly the releasable ones of the shortest last_update-ordered prefix
   that reaches the shortfall; nothing when the headroom is met or the free space unknown *)
Theorem C20_release_only_releasable : forall needed l total x, In x (release_walk needed total l) ->
  exists c, In c l /\ rc_id c = x /\ rc_healthy c = true /\ rc_ready c = true /\ rc_state c = Some Restored.
Proof. exact release_only_releasable. Qed.
Print Assumptions C20_release_only_releasable.
Theorem C20_release_is_shortest_prefix : forall needed l total, release_walk needed total l = map rc_id (filter releasable (rprefix needed total l)).
Proof. exact release_is_prefix. Qed.
Print Assumptions C20_release_is_shortest_prefix.
Theorem C20_nothing_released_when_enough : forall avail headroom l, (forall a, avail = Some a -> (headroom <= a)%Z) -> release_files avail headroom l = [].
Proof. exact nothing_released_when_enough. Qed.
Print Assumptions C20_nothing_released_when_enough.

(* idle refresh: when the state is known the ready flag afterwards says "resident", and a missing file is recorded absent *)
Theorem C20_idle_alignment : forall st ready gone r, idle_align st ready = Some (gone, r) ->
  exists s, st = Some s /\ (gone = true <-> s = Missing) /\ (r = true <-> resident s = true).
Proof. exact idle_align_spec. Qed.
Print Assumptions C20_idle_alignment.

Example C20_example : release_files (Some 50%Z) 200 ex_cands = [2; 4]%N /\
  hsm_state [47; 120]%N ([47; 120; 58; 32]%N ++ w_released ++ [32]%N ++ w_archived) (Some false) = Some Released.
Proof. exact example_release. Qed.
