"""World builder: a real sqlite data index reached through alpenhorn's own database-extension hook,
node trees under a scratch directory, configuration."""
from __future__ import annotations

import datetime
import pathlib
import sys

import peewee as pw  # noqa

sys.path.insert(0, "/repo")

from alpenhorn.common import config, extensions  # noqa: E402
from alpenhorn import db  # noqa: E402
from alpenhorn.db import (  # noqa: E402
    ArchiveAcq, ArchiveFile, ArchiveFileCopy, ArchiveFileCopyRequest, ArchiveFileImportRequest,
    DataIndexVersion, StorageGroup, StorageNode, StorageTransferAction,
)

_current = None


def detect(path, node):
    """scripted import-detect: first component is the acquisition (files directly under the root are rejected)"""
    if len(path.parts) < 2:
        return None, None
    return path.parts[0], None


def fresh_db(host="h1", conf=None, shared=False):
    """a new in-memory index; returns the peewee database"""
    global _current
    if _current is not None:
        try:
            _current.close()
        except Exception:
            pass
    cfg = config.merge_dict_tree(config._default_config.copy(), {"base": {"hostname": host}})
    if conf:
        cfg = config.merge_dict_tree(cfg, conf)
    config.config = cfg
    kw = dict(thread_safe=False, check_same_thread=False) if shared else {}
    sdb = pw.SqliteDatabase(":memory:", **kw)
    extensions._db_ext = {"name": "verif", "database": {"connect": lambda config: sdb, "reentrant": False}}
    extensions._id_ext = [detect]
    db.connect()
    db.database_proxy.create_tables(db.gamut)
    DataIndexVersion.create(component="alpenhorn", version=db.current_version)
    _current = sdb
    return sdb


def mkgroup(name, **kw):
    return StorageGroup.create(name=name, **kw)


def mknode(base: pathlib.Path | None, name, group, stype="A", host="h1", active=True, marker=True, root=None, **kw):
    if root is None:
        root = str(base / name)
    if base is not None:
        pathlib.Path(root).mkdir(parents=True, exist_ok=True)
        if marker:
            (pathlib.Path(root) / "ALPENHORN_NODE").write_text(name + "\n")
    return StorageNode.create(name=name, group=group, root=root, host=host, active=active, storage_type=stype, **kw)


def dump_index():
    """canonical dump of the whole index (sorted rows, no timestamps)"""
    out = {}
    out["acq"] = sorted((a.id, a.name) for a in ArchiveAcq.select())
    out["file"] = sorted((f.id, f.acq_id, f.name, f.size_b, f.md5sum) for f in ArchiveFile.select())
    out["copy"] = sorted((c.id, c.file_id, c.node_id, c.has_file, c.wants_file, bool(c.ready), c.size_b) for c in ArchiveFileCopy.select())
    out["req"] = sorted((r.id, r.file_id, r.node_from_id, r.group_to_id, bool(r.completed), bool(r.cancelled)) for r in ArchiveFileCopyRequest.select())
    out["ireq"] = sorted((r.id, r.node_id, r.path, bool(r.recurse), bool(r.register), bool(r.completed)) for r in ArchiveFileImportRequest.select())
    out["node"] = sorted((n.id, n.name, n.group_id, n.host, bool(n.active), n.storage_type, n.root) for n in StorageNode.select())
    out["group"] = sorted((g.id, g.name) for g in StorageGroup.select())
    out["rule"] = sorted((a.node_from_id, a.group_to_id, bool(a.autosync), bool(a.autoclean)) for a in StorageTransferAction.select())
    return out


# ---- files, copies, requests -----------------------------------------------------------------------------------
import hashlib  # noqa: E402


def content_of(tag: int, size: int) -> bytes:
    """deterministic content: distinct per tag"""
    seed = hashlib.sha256(str(tag).encode()).digest()
    return (seed * (size // len(seed) + 1))[:size]


def mkacq(name):
    return ArchiveAcq.get_or_create(name=name)[0]


def mkfile(acq, name, content: bytes | None = None, size_b="auto", md5sum="auto"):
    if content is not None:
        if size_b == "auto":
            size_b = len(content)
        if md5sum == "auto":
            md5sum = hashlib.md5(content).hexdigest()
    else:
        size_b = None if size_b == "auto" else size_b
        md5sum = None if md5sum == "auto" else md5sum
    return ArchiveFile.create(acq=acq, name=name, size_b=size_b, md5sum=md5sum)


def put_on_disk(node, file, content: bytes):
    p = pathlib.Path(node.root, file.acq.name, file.name)
    p.parent.mkdir(parents=True, exist_ok=True)
    p.write_bytes(content)
    return p


def mkcopy(node, file, has="Y", wants="Y", size_b=None, **kw):
    return ArchiveFileCopy.create(node=node, file=file, has_file=has, wants_file=wants, size_b=size_b, **kw)


def mkreq(file, node_from, group_to, **kw):
    return ArchiveFileCopyRequest.create(file=file, node_from=node_from, group_to=group_to, **kw)


def tree_listing(root) -> list:
    """sorted recursive listing with content digests (files) — canonical observation of a node tree"""
    root = pathlib.Path(root)
    out = []
    if not root.exists():
        return out
    for p in sorted(root.rglob("*")):
        rel = str(p.relative_to(root))
        if p.is_symlink():
            out.append((rel, "link", None))
        elif p.is_dir():
            out.append((rel, "dir", None))
        else:
            out.append((rel, "file", hashlib.md5(p.read_bytes()).hexdigest()))
    return out


class SqlFault:
    """log every SQL statement issued through the current database and optionally raise at the k-th"""

    def __init__(self, sdb, fail_at=None, exc=None, verbs=None):
        self.sdb, self.fail_at, self.n, self.log = sdb, fail_at, 0, []
        self.exc = exc or pw.OperationalError("injected by the harness")
        self.verbs = verbs  # count only statements starting with these verbs (None = all)
        self.orig = sdb.execute_sql

    def __enter__(self):
        def execute_sql(sql, params=None, *a, **k):
            verb = sql.split(None, 1)[0].upper() if sql.strip() else ""
            counted = self.verbs is None or verb in self.verbs
            if counted:
                self.n += 1
            self.log.append((self.n, verb, sql[:80], self.sdb.transaction_depth()))
            if counted and self.fail_at is not None and self.n == self.fail_at:
                raise self.exc
            return self.orig(sql, params, *a, **k)

        self.sdb.execute_sql = execute_sql
        return self

    def __exit__(self, *a):
        try:
            del self.sdb.execute_sql
        except AttributeError:
            self.sdb.execute_sql = self.orig
        return False


class StepQueue:
    """a real FairMultiFIFOQueue whose get() never blocks for long"""

    @staticmethod
    def make():
        from alpenhorn.scheduler import FairMultiFIFOQueue

        class Q(FairMultiFIFOQueue):
            def get(self, timeout=None):
                # never wait for work that is not there; but a 1 ms budget can run out before the first look at the queue
                # when the machine is loaded (a spurious None would end serial_io with tasks still queued): look again
                for budget in (0.001, 0.02, 0.2):
                    r = super().get(timeout=budget)
                    if r is not None or self.qsize == 0 or self.inprogress_size > 0:
                        return r
                return super().get(timeout=1.0)

        return Q()


def drain_with_workers(queue, max_tasks=200):
    """run every queued task through the real Worker.run (so its fault containment applies);
    a worker that exits after a database error is replaced, as WorkerPool.check would.
    Returns (number of worker exits with error, global_abort set?)"""
    from alpenhorn.scheduler import pool

    exits = 0
    for _ in range(max_tasks):
        if queue.qsize == 0 and queue.inprogress_size == 0 and queue.deferred_size == 0:
            break
        w = pool.Worker(queue, 0)
        orig_get = queue.get

        def get(timeout=None, _w=w, _orig=orig_get):
            r = _orig(timeout=timeout)
            if r is None:
                _w._worker_stop.set()
            return r

        w._queue = type("QProxy", (), {"get": staticmethod(get), "task_done": queue.task_done})()
        r = w.run()
        if r == 1:
            exits += 1
        if pool.global_abort.is_set():
            return exits, True
    return exits, pool.global_abort.is_set()
