From Coq Require Import List Ascii Bool Arith Lia.
Import ListNotations.
Local Open Scope char_scope.

Definition str := list ascii.
Definition slash : ascii := "/".
Definition dot : ascii := ".".

Fixpoint str_eqb (a b : str) : bool :=
  match a, b with
  | [], [] => true
  | x :: a', y :: b' => Ascii.eqb x y && str_eqb a' b'
  | _, _ => false
  end.
Fixpoint prefixb (p s : str) : bool :=
  match p, s with
  | [], _ => true
  | x :: p', y :: s' => Ascii.eqb x y && prefixb p' s'
  | _ :: _, [] => false
  end.
Fixpoint infixb (p s : str) : bool :=
  prefixb p s || match s with [] => false | _ :: s' => infixb p s' end.
(* str.endswith for a non-empty pattern *)
Fixpoint suffixb (p s : str) : bool :=
  str_eqb p s || match s with [] => false | _ :: s' => suffixb p s' end.

Definition start_bad (name : str) : bool :=
  str_eqb name []
  || str_eqb name [dot] || str_eqb name [dot; dot]
  || prefixb [slash] name || prefixb [dot; slash] name || prefixb [dot; dot; slash] name.
Definition tail_bad (name : str) : bool :=
  suffixb [slash] name || suffixb [slash; dot] name || suffixb [slash; dot; dot] name
  || infixb [slash; slash] name
  || infixb [slash; dot; slash] name
  || infixb [slash; dot; dot; slash] name.
Definition invalid (name : str) : bool := start_bad name || tail_bad name.

Inductive st := SC | D1 | D2 | IN.
Fixpoint scan (q : st) (s : str) : bool :=
  match s with
  | [] => match q with IN => false | _ => true end
  | c :: s' =>
      if Ascii.eqb c slash then match q with IN => scan SC s' | _ => true end
      else if Ascii.eqb c dot then
        match q with SC => scan D1 s' | D1 => scan D2 s' | D2 => scan IN s' | IN => scan IN s' end
      else scan IN s'
  end.

Definition d1_bad (s : str) := str_eqb s [] || prefixb [slash] s || str_eqb s [dot] || prefixb [dot; slash] s.
Definition d2_bad (s : str) := str_eqb s [] || prefixb [slash] s.


Ltac other_char c :=
  repeat match goal with
  | H : c <> slash |- _ =>
      assert (Ascii.eqb slash c = false) by (apply Ascii.eqb_neq; congruence);
      assert (Ascii.eqb c slash = false) by (apply Ascii.eqb_neq; congruence); clear H
  | H : c <> dot |- _ =>
      assert (Ascii.eqb dot c = false) by (apply Ascii.eqb_neq; congruence);
      assert (Ascii.eqb c dot = false) by (apply Ascii.eqb_neq; congruence); clear H
  end.
Ltac case_char c :=
  destruct (Ascii.eqb_spec c slash) as [->|?];
  [| destruct (Ascii.eqb_spec c dot) as [->|?]; [| other_char c]].
Ltac crush :=
  cbn;
  repeat match goal with H : Ascii.eqb _ _ = false |- _ => rewrite !H; cbn end;
  repeat (rewrite ?orb_true_r, ?orb_false_r, ?andb_false_r, ?andb_true_r; cbn);
  try reflexivity.


Ltac step_str :=
  match goal with
  | |- context [match ?s with [] => _ | _ :: _ => _ end] => is_var s; let a := fresh "a" in destruct s as [|a s]; crush; [..| try (case_char a; crush)]
  | |- context [prefixb (_ :: _) ?s] => is_var s; let a := fresh "a" in destruct s as [|a s]; crush; [..| try (case_char a; crush)]
  | |- context [str_eqb ?s _] => is_var s; let a := fresh "a" in destruct s as [|a s]; crush; [..| try (case_char a; crush)]
  | |- context [str_eqb _ ?s] => is_var s; let a := fresh "a" in destruct s as [|a s]; crush; [..| try (case_char a; crush)]
  end.

Lemma tail_bad_cons c s :
  tail_bad (c :: s) = (Ascii.eqb c slash && start_bad s) || tail_bad s.
Proof.
  unfold tail_bad, start_bad. cbn [suffixb infixb prefixb str_eqb].
  case_char c; crush.
  do 4 (try step_str).
  all: idtac "REMAIN". Show. 
Admitted.
Lemma scan_spec s :
  scan IN s = tail_bad s /\
  scan SC s = start_bad s || tail_bad s /\
  scan D1 s = d1_bad s || tail_bad s /\
  scan D2 s = d2_bad s || tail_bad s.
Proof.
  induction s as [|c s (HIN & HSC & HD1 & HD2)].
  - cbn. repeat split; reflexivity.
  - rewrite tail_bad_cons. cbn [scan].
    case_char c.
    + cbn [Ascii.eqb]. rewrite HSC. unfold start_bad, d1_bad, d2_bad. crush.
      repeat split; crush.
    + rewrite HIN, HD1, HD2. unfold start_bad, d1_bad, d2_bad. crush.
      repeat split; crush.
      all: destruct s as [|a s]; crush; try (case_char a; crush).
      all: try (destruct s as [|b s]; crush; try (case_char b; crush)).
    + repeat match goal with H : Ascii.eqb _ _ = false |- _ => rewrite ?H end.
      rewrite HIN. unfold start_bad, d1_bad, d2_bad. crush.
      repeat split; crush.
Qed.

Theorem invalid_is_scan s : invalid s = scan SC s.
Proof. unfold invalid. symmetry. apply scan_spec. Qed.
Print Assumptions invalid_is_scan.
