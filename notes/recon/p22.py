"""Persistent daemon thread stepped one iteration at a time via a breakpoint in pool.check()."""
import sys, threading, pathlib, tempfile, shutil, hashlib
sys.path.insert(0, "/repo")
import peewee as pw
from alpenhorn.common import config, extensions
from alpenhorn import db
from alpenhorn.db import *
from alpenhorn.daemon import update
from alpenhorn.scheduler import FairMultiFIFOQueue, pool, global_abort
tmp = pathlib.Path(tempfile.mkdtemp(prefix="alp_", dir="/root/probe"))
config.config = config.merge_dict_tree(config._default_config.copy(), {"base": {"hostname": "h1"}, "daemon": {"update_interval": 0}})
sdb = pw.SqliteDatabase(":memory:", thread_safe=False, check_same_thread=False)
extensions._db_ext = {"name": "verif", "database": {"connect": lambda config: sdb, "reentrant": False}}
extensions._id_ext = [lambda path, node: (path.parts[0], None) if len(path.parts) > 1 else (None, None)]
db.connect(); db.database_proxy.create_tables(db.gamut); DataIndexVersion.create(component="alpenhorn", version=db.current_version)
g = StorageGroup.create(name="g"); (tmp/"a").mkdir(); (tmp/"a"/"ALPENHORN_NODE").write_text("a\n")
a = StorageNode.create(name="a", group=g, root=str(tmp/"a"), host="h1", active=True, storage_type="F")
class StepPool(pool.EmptyPool):
    def __init__(self): super().__init__(); self.go = threading.Semaphore(0); self.done = threading.Semaphore(0); self.first=True
    def check(self):
        if not self.first: pass
        self.first=False
class Q(FairMultiFIFOQueue):
    def get(self, timeout=None): return super().get(timeout=0.01)
go = threading.Semaphore(0); done = threading.Semaphore(0)
import alpenhorn.daemon.update as U
orig_serial = U.serial_io
def serial_io(queue):
    orig_serial(queue); done.release(); go.acquire()     # breakpoint at the end of each iteration
U.serial_io = serial_io
q = Q(); p = pool.EmptyPool()
t = threading.Thread(target=update.update_loop, args=(q, p, False), daemon=True); t.start()
tidy = []
import alpenhorn.scheduler.task as T
oc = T.Task.__call__
def call(self): tidy.append(str(self)); return oc(self)
T.Task.__call__ = call
for i in range(4):
    done.acquire()
    if i == 0:
        (tmp/"a"/"acq").mkdir(); (tmp/"a"/"acq"/"f").write_bytes(b"x"); ArchiveFileImportRequest.create(node=a, path="acq/f", register=True)
    print("after iteration", i, "tasks so far:", tidy, [(c.file.name, c.has_file) for c in ArchiveFileCopy.select()])
    go.release()
global_abort.set(); go.release(); t.join(2); global_abort.clear()
shutil.rmtree(tmp)
