"""C01 — deletion safety: delete_async, update_delete's selection, and histories with every destructive call monitored."""
import ast
import errno
import os
import pathlib

from vf import core
from vf.core import clist, cn, ctup
from vf.translate import core as T
from vf import grouppass
from vf.harness import histories, monitors
from vf.harness import world as w

TRUSTED = [
    "group pass (Model/Dispatch.v): the pending requests are taken in id order, as sqlite returns them; update_pull's answer is an input of the model",
    "Coq 8.16.1 kernel + VM; no native_compute",
    "translator vf/translate for the guards of delete_async (copies_required, the count test, the ENOENT test) and the archive_count query filter (textual)",
    "the daemon simulation (vf/harness/daemon.py): real update_loop per host stepped one iteration at a time on a shared sqlite index, every mutating os-level call interposed; "
    "modelled, not verified: tasks are atomic with respect to one another in the theorems (serial I/O, or no two tasks on one file at once); overlapping deletes are the known finding KF-C01-1",
    "sqlite unique index on (file, node) (hypothesis uniq of the theorems)",
]
RULE = ("delete_async on random copy tables x node types x batches (incl. wanted copies, missing files, failing unlinks) compared with the model in Coq; random multi-host histories "
        "(CLI clean/sync/verify/state, iterations on every host, imports, transfers, faults) with the property evaluated at every destructive file-system call against the index at that instant; "
        "the two-host interleaving of the known finding; non-trivial = at least one unlink issued / one copy removed; distinct by full input")

HAS = {"Y": "HY", "M": "HM", "X": "HX", "N": "HN"}
WANTS = {"Y": "WY", "M": "WM", "N": "WN"}


def gen(ctx):
    asy = T.parse(core.REPO / "alpenhorn/io/_default_asyncs.py")
    atoms = {"copies[0].node.archive": ("archive", "bool"), "e.errno": ("e_errno", "Z"), "errno.ENOENT": ("enoent", "Z")}
    fn = T.find_func(asy, "delete_async")
    tests = [ast.unparse(x.test) for x in T.if_tests(fn)]
    if tests != ["ncopies < copies_required", "copy.file.size_b", "e.errno == errno.ENOENT"]:
        raise T.Untranslatable(f"UNTRANSLATABLE: tests of delete_async changed: {tests}")
    d = [
        T.assigned(asy, "delete_async", "copies_required", {}, "g_copies_required", atoms=atoms),
        T.nth_test(asy, "delete_async", 0, {"ncopies": "Z", "copies_required": "Z"}, "g_too_few", ["ncopies", "copies_required"]),
        T.nth_test(asy, "delete_async", 2, {}, "g_is_enoent", ["e_errno", "enoent"], atoms=atoms),
    ]
    acq = (core.REPO / "alpenhorn/db/acquisition.py").read_text()
    if 'StorageNode.storage_type == "A",\n                ArchiveFileCopy.has_file == "Y",' not in acq:
        raise T.Untranslatable("UNTRANSLATABLE: archive_count filter changed")
    upd = ast.unparse(fn)
    order = [upd.find(s) for s in ("copy.file.archive_count", "fullpath.unlink()", "ioutil.remove_filedir(", "ArchiveFileCopy.update(has_file='N', wants_file='N'")]
    if -1 in order or order != sorted(order):
        raise T.Untranslatable(f"UNTRANSLATABLE: delete_async no longer counts, unlinks, tidies and then updates in this order: {order}")
    return {"Gen_delete": T.HEADER + "\n".join(d) + "\n"}


def proofs(ctx):
    try:
        files = gen(ctx)
    except T.Untranslatable as e:
        ctx.broke("translator", "delete_async", str(e))
        files = None
    if files:
        core.check_tie(ctx, files, ["Tie_C01"])
    try:
        grouppass.pin()
    except T.Untranslatable as e:
        ctx.broke("translator", "UpdateableGroup.update / update_pull", str(e))
    core.check_property_file(ctx, "C01.v")


# ---- delete_async directly ---------------------------------------------------------------------------------------
def run_direct(base, case):
    from alpenhorn.io import _default_asyncs as A
    from alpenhorn.io.updownlock import UpDownLock
    import shutil

    shutil.rmtree(base / "d", ignore_errors=True)
    w.fresh_db()
    g = w.mkgroup("g")
    nodes = {i: w.mknode(base / "d", f"n{i}", g, stype=t) for i, t in enumerate(case["types"], 1)}
    acq = w.mkacq("acq")
    files = {f: w.mkfile(acq, f"sub/f{f}" if f % 2 else f"f{f}", w.content_of(f, 7)) for f in sorted({c[0] for c in case["copies"]})}
    rows = []
    for (f, n, h, wt, on_disk) in case["copies"]:
        c = w.mkcopy(nodes[n], files[f], h, wt)
        rows.append(c)
        if on_disk:
            w.put_on_disk(nodes[n], files[f], w.content_of(f, 7))
    batch = [w.ArchiveFileCopy.get(id=rows[i].id) for i in case["batch"]]
    failing = {rows[i].id for i in case["failing"]}
    fail_paths = {str(pathlib.Path(rows[i].node.root, rows[i].file.acq.name, rows[i].file.name)): rows[i].id for i in case["failing"]}
    unlinked = []
    byp = {str(pathlib.Path(r.node.root, r.file.acq.name, r.file.name)): r.id for r in rows}
    orig = os.unlink

    def unlink(p, *a, **k):
        q = os.path.normpath(os.fspath(p))
        if q in byp:
            unlinked.append(byp[q])
        if q in fail_paths:
            raise PermissionError(errno.EACCES, "refused by the harness", q)
        return orig(p, *a, **k)

    os.unlink = unlink
    try:
        if batch:
            A.delete_async(None, UpDownLock(), batch)
    finally:
        os.unlink = orig
    after = [(c.has_file, c.wants_file) for c in w.ArchiveFileCopy.select().order_by(w.ArchiveFileCopy.id)]
    ids = [r.id for r in rows]
    arch = [nodes[i].id for i, t in enumerate(case["types"], 1) if t == "A"]
    table = [(r.id, r.file_id, r.node_id, h, wt) for r, (f, n, h, wt, _) in zip(rows, case["copies"])]
    left = sorted(str(p.relative_to(base / "d")) for p in (base / "d").rglob("*") if p.is_file() and p.name != "ALPENHORN_NODE")
    return arch, table, [ids[i] for i in case["batch"]], sorted(failing), unlinked, after, left


def gen_direct(rng):
    nn = rng.randint(2, 5)
    types = [rng.choice("AAAFT") for _ in range(nn)]
    copies = []
    for f in range(1, rng.randint(1, 3) + 1):
        for n in range(1, nn + 1):
            if rng.random() < 0.8:
                copies.append((f, n, rng.choice("YYYYMXN"), rng.choice("YMN"), rng.random() < 0.85))
    node = rng.randint(1, nn)
    on_node = [i for i, c in enumerate(copies) if c[1] == node]
    rng.shuffle(on_node)
    batch = on_node[: rng.randint(0, len(on_node))]
    failing = [i for i in batch if rng.random() < 0.15]
    return {"types": types, "copies": copies, "batch": batch, "failing": failing}


def explore_direct(ctx, n):
    base = ctx.tmp()
    terms, keep = [], []
    for k in range(n):
        case = gen_direct(ctx.rng)
        arch, table, batch_ids, failing, unlinked, after, left = run_direct(base, case)
        ctx.count("delete_async")
        if unlinked:
            ctx.distinct_add(repr(case))
        # monitor: each unlinked copy had >= 2 other healthy archive copies at that moment (replay the deletions)
        state = {i: (f, nd, h, wt) for (i, f, nd, h, wt) in table}
        for cid in unlinked:
            f, nd, _, _ = state[cid]
            others = sum(1 for (i, (f2, n2, h2, _)) in state.items() if f2 == f and n2 != nd and h2 == "Y" and n2 in arch)
            if others < 2:
                ctx.fail("C01:too-few-archive-copies", f"delete_async unlinked copy {cid} with {others} other healthy archive copies on record", {"family": "direct", "case": case})
            if cid not in failing:
                state[cid] = (f, nd, "N", "N")
        terms.append(ctup(clist([cn(a) for a in arch], "N"), clist([f"(D {cn(i)} {cn(f)} {cn(nd)} {HAS[h]} {WANTS[wt]})" for (i, f, nd, h, wt) in table], "dcopy"),
                          clist([cn(i) for i in batch_ids], "N"), clist([cn(i) for i in failing], "N"), clist([cn(i) for i in unlinked], "N"),
                          clist([ctup(HAS[h], WANTS[wt]) for h, wt in after], "(has * wants)")))
        keep.append(case)
        if k == 0:
            ctx.sample({"delete_async_case": case, "unlinked_copy_ids": unlinked})
    bad = core.run_cases(ctx, "direct", "Corr.C01", "case", "check", terms, shard=300, extra_imports=("Model.Delete",))
    for i in bad[:3]:
        ctx.broke("correspondence", f"delete_async: model and implementation differ on {keep[i]}")


# ---- histories ------------------------------------------------------------------------------------------------------
def attach_selection_hook(sim, mon):
    def hook(node, copies):
        disc = bool(node.under_min) and not node.archive
        for c in copies:
            mon.selection[c.id] = {"wants": c.wants_file, "discretionary": disc, "pending_source": monitors.pending_source(c)}
    sim.delete_hooks.append(hook)


def run_hist(ctx, base, spec, ops, extra=None):
    from vf.harness import daemon

    sim = daemon.Sim(base, spec)
    sim.set_tools("both")
    rp = {"family": "history", "spec": spec, "ops": [list(o) for o in ops], **(extra or {})}
    mon = monitors.Monitors(sim, ctx, rp)
    attach_selection_hook(sim, mon)
    removed = 0
    try:
        for op in ops:
            if op[0] == "interleave":
                sim.interleave = (op[1], op[2])
                res = sim.iterate(op[1])
            elif op[0] == "second-worker":
                # two workers: while one pull is inside its transport, the other worker runs whatever else is queued on that host
                sim.second_worker = True
                res = sim.iterate(op[1])
                sim.second_worker = False
            elif op[0] == "late":
                # the operator (or a fault) acts after the daemon's main loop has queued its tasks and before they run
                def late(sub=op[2]):
                    for o in sub:
                        histories.apply_op(sim, mon, tuple(o))
                sim.before_tasks = late
                res = sim.iterate(op[1])
                sim.before_tasks = None
            else:
                res = histories.apply_op(sim, mon, op)
            if res is not None and res["error"]:
                mon.fail("daemon-died", f"daemon on {op[1]} died: {res['error'][:300]}")
        removed = len(sim.removed_by_daemon)
    finally:
        sim.shutdown()
    return removed


KF_SPEC = {"groups": [{"name": "g1"}, {"name": "g2"}, {"name": "g3"}],
           "nodes": [{"name": "a", "group": "g1", "stype": "A", "host": "h1"}, {"name": "b", "group": "g2", "stype": "A", "host": "h2"}, {"name": "c", "group": "g3", "stype": "A", "host": "h2", "active": False}],
           "acqs": ["acq"], "files": [{"acq": "acq", "name": "f", "size": 10}],
           "copies": [{"file": 0, "node": "a", "has": "Y", "wants": "N"}, {"file": 0, "node": "b", "has": "Y", "wants": "N"}, {"file": 0, "node": "c", "has": "Y", "wants": "Y"}]}


def late_corpus():
    """a destination copy becomes healthy (operator repair) between the dispatch of a pull and its execution, while the source rots"""
    out = []
    for name in ("f.dat", "sub/f.dat"):
        for dst_has in ("X", "M", None):
            spec = {"groups": [{"name": "g1"}, {"name": "g2"}],
                    "nodes": [{"name": "n1", "group": "g1", "stype": "A", "host": "h1", "active": True, "username": "u", "address": "addr"},
                              {"name": "n2", "group": "g2", "stype": "A", "host": "h1", "active": True, "username": "u", "address": "addr"}],
                    "acqs": ["acq1"], "files": [{"acq": "acq1", "name": name, "size": 150}],
                    "copies": [{"file": 0, "node": "n1", "has": "Y", "wants": "Y"}] + ([{"file": 0, "node": "n2", "has": dst_has, "wants": "Y", "disk": "corrupt"}] if dst_has == "X" else []),
                    "reqs": [{"file": 0, "from": "n1", "to": "g2", "state": "pending"}], "rules": [], "unregistered": [], "ireqs": []}
            rel = f"acq1/{name}"
            late = [("fault", "repair", "n2", rel), ("cli", "file state", [rel, "n2", "--set=healthy"]), ("fault", "corrupt", "n1", rel)]
            if dst_has is None:
                late = [("cli", "file import", [rel, "n2", "--register-new"])]  # harmless: nothing on disk yet
            out.append((spec, [("late", "h1", late), ("iter", "h1")]))
    return out


def explore(ctx):
    explore_direct(ctx, 250 if ctx.quick() else 5000)
    grouppass.explore(ctx, 80 if ctx.quick() else 2000)
    base = ctx.tmp() / "sim"
    for spec, ops in late_corpus():
        run_hist(ctx, base, spec, ops, {"scenario": "late-operator"})
        ctx.count("history-late-operator")
    # the idle tidy-up removes only placeholders: a registered data file in a dot-directory that looks like the old (wrong) placeholder
    # path of another file is not one (F-C01c)
    tidy_spec = {"groups": [{"name": "g1"}], "nodes": [{"name": "n1", "group": "g1", "stype": "A", "host": "h1", "active": True, "username": "u", "address": "addr"}],
                 "acqs": ["acq1"], "files": [{"acq": "acq1", "name": "sub/f", "size": 150}, {"acq": "acq1", "name": ".sub/f.placeholder", "size": 13}, {"acq": "acq1", "name": "g", "size": 13},
                                             {"acq": "acq1", "name": "sub/.f.placeholderx", "size": 1}],
                 "copies": [{"file": 0, "node": "n1", "has": "Y", "wants": "Y"}, {"file": 1, "node": "n1", "has": "Y", "wants": "Y"}, {"file": 2, "node": "n1", "has": "M", "wants": "Y", "disk": "ok"},
                            {"file": 3, "node": "n1", "has": "Y", "wants": "Y"}],
                 "reqs": [], "rules": [], "unregistered": [], "ireqs": []}
    run_hist(ctx, base, tidy_spec, [("iter", "h1"), ("iter", "h1"), ("iter", "h1")], {"scenario": "tidy-up"})
    ctx.count("history-tidy-up")
    # a batch of two: the other host deletes its copy of the SECOND file while the first is being unlinked; the second file's count is read
    # after that, so the second copy must stay (only the first copy's count can be stale: KF-C01-1)
    b2_spec = {"groups": [{"name": "g1"}, {"name": "g2"}, {"name": "g3"}],
               "nodes": [{"name": "a", "group": "g1", "stype": "A", "host": "h1"}, {"name": "b", "group": "g2", "stype": "A", "host": "h2"}, {"name": "c", "group": "g3", "stype": "A", "host": "h2", "active": False}],
               "acqs": ["acq"], "files": [{"acq": "acq", "name": "f1", "size": 10}, {"acq": "acq", "name": "f2", "size": 10}],
               "copies": [{"file": 0, "node": "a", "has": "Y", "wants": "N"}, {"file": 1, "node": "a", "has": "Y", "wants": "N"},
                          {"file": 0, "node": "b", "has": "Y", "wants": "Y"}, {"file": 1, "node": "b", "has": "Y", "wants": "N"},
                          {"file": 0, "node": "c", "has": "Y", "wants": "Y"}, {"file": 1, "node": "c", "has": "Y", "wants": "Y"}]}
    run_hist(ctx, base, b2_spec, [("interleave", "h1", "h2")], {"scenario": "interleaved-batch"})
    ctx.count("history-interleaved-batch")
    # copies merely marked removable go only from NON-archive nodes below their minimum free space
    rm_spec = {"groups": [{"name": f"g{i}"} for i in (1, 2, 3, 4)],
               "nodes": [{"name": "a1", "group": "g1", "stype": "A", "host": "h1", "active": True, "username": "u", "address": "addr", "min_avail_gb": 10 ** 7},
                         {"name": "a2", "group": "g2", "stype": "A", "host": "h1", "active": True, "username": "u", "address": "addr"},
                         {"name": "a3", "group": "g3", "stype": "A", "host": "h1", "active": True, "username": "u", "address": "addr"},
                         {"name": "f1", "group": "g4", "stype": "F", "host": "h1", "active": True, "username": "u", "address": "addr", "min_avail_gb": 10 ** 7}],
               "acqs": ["acq1"], "files": [{"acq": "acq1", "name": "f0", "size": 13}, {"acq": "acq1", "name": "sub/f1", "size": 150}],
               "copies": [{"file": i, "node": n, "has": "Y", "wants": ("M" if n in ("a1", "f1") else "Y")} for i in (0, 1) for n in ("a1", "a2", "a3", "f1")],
               "reqs": [], "rules": [], "unregistered": [], "ireqs": []}
    run_hist(ctx, base, rm_spec, [("iter", "h1"), ("iter", "h1")], {"scenario": "removable-on-archive"})
    ctx.count("history-removable-on-archive")
    # the operator edits a node record while the daemon runs: the next pass must decide on the record as it is now
    for change, expect_kept in ((["--min-avail=0"], True), (["--archive"], True)):
        ed_spec = {"groups": [{"name": f"g{i}"} for i in (1, 2, 3)],
                   "nodes": [{"name": "n1", "group": "g1", "stype": "F", "host": "h1", "active": True, "username": "u", "address": "addr", "min_avail_gb": 10 ** 7},
                             {"name": "a2", "group": "g2", "stype": "A", "host": "h2", "active": True, "username": "u", "address": "addr"},
                             {"name": "a3", "group": "g3", "stype": "A", "host": "h2", "active": True, "username": "u", "address": "addr"}],
                   "acqs": ["acq1"], "files": [{"acq": "acq1", "name": "f1.dat", "size": 13}],
                   "copies": [{"file": 0, "node": n, "has": "Y", "wants": "Y"} for n in ("n1", "a2", "a3")],
                   "reqs": [], "rules": [], "unregistered": [], "ireqs": []}
        run_hist(ctx, base, ed_spec, [("iter", "h1"), ("cli", "file clean", ["acq1/f1.dat", "--node=n1"]), ("cli", "node modify", ["n1"] + change), ("iter", "h1"), ("iter", "h1")],
                 {"scenario": "node-record-edited"})
        ctx.count("history-node-record-edited")
    # two requests for one file into one group, the first from a source whose file is gone: with two workers the pulls must not overlap
    # (the one that fails would unlink what the other has just delivered and recorded healthy)
    for first_bad in (True, False):
        tw_spec = {"groups": [{"name": f"g{i}"} for i in (1, 2, 3)],
                   "nodes": [{"name": "s1", "group": "g1", "stype": "F", "host": "h1", "active": True, "username": "u", "address": "addr"},
                             {"name": "s2", "group": "g2", "stype": "F", "host": "h1", "active": True, "username": "u", "address": "addr"},
                             {"name": "d", "group": "g3", "stype": "A", "host": "h1", "active": True, "username": "u", "address": "addr"}],
                   "acqs": ["acq1"], "files": [{"acq": "acq1", "name": "f.dat", "size": 150}],
                   "copies": [{"file": 0, "node": "s1", "has": "Y", "wants": "Y"}, {"file": 0, "node": "s2", "has": "Y", "wants": "Y"}],
                   "reqs": [{"file": 0, "from": "s2" if first_bad else "s1", "to": "g3", "state": "pending"}, {"file": 0, "from": "s1" if first_bad else "s2", "to": "g3", "state": "pending"}],
                   "rules": [], "unregistered": [], "ireqs": []}
        run_hist(ctx, base, tw_spec, [("fault", "remove", "s2", "acq1/f.dat"), ("second-worker", "h1"), ("second-worker", "h1"), ("iter", "h1")], {"scenario": "two-workers-one-file"})
        ctx.count("history-two-workers")
    # a released copy that is the source of a pending transfer stays (copy ids differ from file ids: the second file's copies come later)
    for wants in ("N", "M"):
        nodes = [{"name": f"n{i}", "group": f"g{i}", "stype": "A" if i != 1 or wants == "N" else "F", "host": "h1", "active": True, "username": "u", "address": "addr"} for i in (1, 2, 3)]
        nodes.append({"name": "n4", "group": "g4", "stype": "A", "host": "h2", "active": False, "username": "u", "address": "addr"})
        if wants == "M":
            nodes[0]["min_avail_gb"] = 10 ** 7
        src_spec = {"groups": [{"name": f"g{i}"} for i in (1, 2, 3, 4)], "nodes": nodes, "acqs": ["acq1"],
                    "files": [{"acq": "acq1", "name": "f0", "size": 13}, {"acq": "acq1", "name": "f1", "size": 150}],
                    "copies": [{"file": 0, "node": n, "has": "Y", "wants": "Y"} for n in ("n1", "n2", "n3")] + [{"file": 1, "node": "n1", "has": "Y", "wants": wants}]
                              + [{"file": 1, "node": n, "has": "Y", "wants": "Y"} for n in ("n2", "n3")],
                    "reqs": [{"file": 1, "from": "n1", "to": "g4", "state": "pending"}], "rules": [], "unregistered": [], "ireqs": []}
        run_hist(ctx, base, src_spec, [("iter", "h1"), ("iter", "h1")], {"scenario": "pending-source"})
        ctx.count("history-pending-source")
    # the known finding: h2's daemon deletes its copy between h1's count and h1's unlink
    run_hist(ctx, base, KF_SPEC, [("interleave", "h1", "h2")], {"scenario": "KF-C01-1"})
    ctx.count("history-known-finding")
    nh = 120 if ctx.quick() else 3000
    total_removed = 0
    for k in range(nh):
        spec = histories.gen_spec(ctx.rng)
        ops = histories.gen_ops(ctx.rng, spec, ctx.rng.randint(5, 12))
        # some operator actions and faults land between a dispatch and the execution of the queued tasks
        for j in range(len(ops) - 1):
            if ops[j][0] == "iter" and ops[j + 1][0] in ("cli", "fault") and ctx.rng.random() < 0.3:
                ops[j] = ("late", ops[j][1], [list(ops[j + 1])])
                ops[j + 1] = ("iter", ops[j][1])
        r = run_hist(ctx, base, spec, ops)
        total_removed += r
        ctx.count("history")
        if r:
            ctx.distinct_add(("hist", repr(spec), repr(ops)))
        if k == 0:
            ctx.sample({"history_ops": [list(o) for o in ops], "copies_removed_by_daemons": r})
    ctx.cov["copies_removed_in_histories"] = total_removed


def search(ctx):
    explore(ctx)


def replay(ctx, rp):
    r = rp["replay"]
    if r.get("family") == "history":
        ops = [tuple(o) for o in r["ops"]]
        run_hist(ctx, ctx.tmp() / "sim", r["spec"], ops)
        for f in ctx.failing:
            print(f["signature"], f["what"])
        return 1 if ctx.failing else 0
    print(r)
    return 2
