"""Property monitors over the daemon simulation: each states a property directly on the implementation's observations.
They are the oracle of the failing-input search and a cross-check of the formal statements."""
from __future__ import annotations

import hashlib
import os
import pathlib

from vf.harness import world as w

DESTRUCTIVE = {"unlink", "remove", "rename", "replace", "open-w", "truncate", "link", "symlink", "rmdir"}


def node_of_path(sim, path):
    """(node row, path relative to its root) for a path inside some node root, else (None, None)"""
    best = None
    for n in w.StorageNode.select():
        root = os.path.normpath(n.root)
        if path == root or path.startswith(root + "/"):
            if best is None or len(root) > len(os.path.normpath(best.root)):
                best = n
    if best is None:
        return None, None
    root = os.path.normpath(best.root)
    return best, ("" if path == root else path[len(root) + 1:])


def copy_record(node, rel):
    """the copy row recorded for node/rel (acq/name), if any"""
    parts = rel.split("/")
    for k in range(1, len(parts)):
        acq, name = "/".join(parts[:k]), "/".join(parts[k:])
        a = w.ArchiveAcq.get_or_none(name=acq)
        if a is None:
            continue
        f = w.ArchiveFile.get_or_none(acq=a, name=name)
        if f is None:
            continue
        c = w.ArchiveFileCopy.get_or_none(file=f, node=node)
        if c is not None:
            return c
    return None


def other_archive_healthy(copy):
    q = (w.ArchiveFileCopy.select().join(w.StorageNode).where(w.ArchiveFileCopy.file == copy.file_id, w.ArchiveFileCopy.has_file == "Y",
                                                               w.StorageNode.storage_type == "A", w.ArchiveFileCopy.node != copy.node_id))
    return q.count()


def pending_source(copy):
    return w.ArchiveFileCopyRequest.select().where(w.ArchiveFileCopyRequest.file == copy.file_id, w.ArchiveFileCopyRequest.node_from == copy.node_id,
                                                   w.ArchiveFileCopyRequest.completed == 0, w.ArchiveFileCopyRequest.cancelled == 0).count() > 0


class Monitors:
    def __init__(self, sim, ctx, rp_base):
        self.sim, self.ctx, self.rp = sim, ctx, rp_base
        self.selection = {}  # copy id -> facts at the time update_delete selected it (set by the delete-dispatch hook)
        self.fired = []
        sim.monitors.append(self.on_effect)

    def fail(self, sig, what):
        self.fired.append(sig)
        self.ctx.fail(sig, what, {**self.rp, "step": getattr(self.sim, "step_no", None)})

    # ---- inline, at every mutating file-system call ----------------------------------------------------------------------
    def on_effect(self, sim, e):
        op, paths, host = e["op"], e["paths"], e["host"]
        task = getattr(sim, "cur_task", None) or ""
        # which path is modified / destroyed
        targets = []
        if op in ("rename", "replace"):
            targets = [(paths[0], "moved-away"), (paths[1], "overwritten" if os.path.lexists(paths[1]) else "created")]
        elif op in ("link", "symlink"):
            targets = [(paths[1], "created")]
        elif op == "open-w":
            m = e.get("mode", "")
            if "x" in m and os.path.lexists(paths[0]):
                return  # exclusive creation of an existing path fails without touching it
            targets = [(paths[0], "overwritten" if os.path.lexists(paths[0]) and ("w" in m or "+" in m or not m) else "created" if not os.path.lexists(paths[0]) else "opened")]
        elif op in ("unlink", "remove", "rmdir", "truncate"):
            targets = [(paths[0], "removed")]
        elif op in ("mkdir",):
            targets = [(paths[0], "created")]
        else:
            targets = [(paths[0], "touched")]
        ready = sim.ready_at_start.get(host, {})
        for path, what in targets:
            if not path.startswith(sim.basestr + "/roots/"):
                if path.startswith(sim.basestr):
                    self.fail("C06:outside-roots", f"daemon on {host} {op} {path.replace(sim.basestr, '')} — outside every node root (task: {task})")
                elif what in ("removed", "moved-away", "overwritten", "created") and not path.startswith(("/dev/", "/proc/")):
                    # anywhere else on the machine (the system temporary directory, ...) is outside every node root as well
                    self.fail("C06:outside-roots", f"daemon on {host} {op} ({what}) {path} — outside every node root (task: {task})")
                continue
            node, rel = node_of_path(sim, path)
            if node is None:
                self.fail("C06:outside-roots", f"daemon on {host} {op} {path.replace(sim.basestr, '')} — not inside a node root (task: {task})")
                continue
            # C06: the path must also *resolve* inside the node root (a symlinked directory component can lead out of it)
            if what in ("removed", "moved-away", "overwritten", "created"):
                real = os.path.join(os.path.realpath(os.path.dirname(path)), os.path.basename(path))
                rootreal = os.path.realpath(node.root)
                if not (real == rootreal or real.startswith(rootreal + "/")):
                    self.fail("C06:resolves-outside-root", f"daemon on {host}: {op} ({what}) {rel!r} on node {node.name} resolves to {real.replace(sim.basestr, '')}, outside the node root (task: {task})")
            # C07: only local, active, initialised nodes (as of the start of the iteration)
            if node.name not in ready:
                # the marker may be created on an explicit init request
                if rel == "ALPENHORN_NODE" and what == "created" and node.host == host and node.active and sim.init_requested(node):
                    pass
                else:
                    self.fail("C07:foreign-node", f"daemon on {host} {op} {rel!r} on node {node.name} (host {node.host}, active={node.active}, not initialised/local at the start of the iteration; task: {task})")
            # C06: roots and markers are never removed / replaced
            if rel == "" and what in ("removed", "moved-away", "overwritten"):
                self.fail("C06:root-removed", f"daemon on {host}: {op} of the root of node {node.name}")
            if rel == "ALPENHORN_NODE" and what in ("removed", "moved-away", "overwritten"):
                self.fail("C06:marker-removed" if what != "overwritten" else "C07:marker-overwritten", f"daemon on {host}: {op} ({what}) the marker of node {node.name} (task: {task})")
            # C01: destroying a path the index records as a healthy copy
            if what in ("removed", "moved-away", "overwritten") and rel and op != "rmdir":
                c = copy_record(node, rel)
                if c is not None and c.has_file == "Y":
                    if not task.startswith("Delete copies"):
                        self.fail("C01:healthy-destroyed-by-other-task", f"{task or 'main loop'} on {host}: {op} ({what}) {rel!r} on {node.name}, recorded healthy")
                        continue
                    others = other_archive_healthy(c)
                    sel = self.selection.get(c.id)
                    if others < 2:
                        # the known window (KF-C01-1) is between the count and the unlink of one copy: the copy whose unlink the other
                        # host's task interleaved with, or anything done by the interleaving task itself.  Later copies of the same
                        # batch are counted afresh before their own unlink.
                        interleaved = getattr(sim, "in_nested", False) or (getattr(sim, "nested_ran", False) and getattr(sim, "nested_trigger", None) == path)
                        sig = "C01:interleaved-deletes" if interleaved else "C01:too-few-archive-copies"
                        self.fail(sig, f"delete task on {host} unlinks {rel!r} on {node.name} while the index records {others} other healthy archive copies")
                    if sel is not None:
                        if sel["wants"] == "Y" or (sel["wants"] == "M" and not sel["discretionary"]):
                            self.fail("C01:wanted-copy-deleted", f"copy of {rel!r} on {node.name} was deleted although it was wanted={sel['wants']} (discretionary={sel['discretionary']}) at selection")
                        if sel["pending_source"]:
                            self.fail("C01:pending-source-deleted", f"copy of {rel!r} on {node.name} was deleted although it is the source of a pending transfer")

    # ---- after a step ----------------------------------------------------------------------------------------------------
    def wellformed(self, where):
        """C08: index well-formedness"""
        seen = set()
        for c in w.ArchiveFileCopy.select():
            k = (c.file_id, c.node_id)
            if k in seen:
                self.fail("C08:duplicate-copy", f"two copy records for file {c.file_id} on node {c.node_id} ({where})")
            seen.add(k)
            if c.has_file not in "YMXN" or c.wants_file not in "YMN" or len(c.has_file) != 1 or len(c.wants_file) != 1:
                self.fail("C08:illegal-state", f"copy {c.id} has state ({c.has_file!r}, {c.wants_file!r}) ({where})")
        seenf = set()
        for f in w.ArchiveFile.select():
            k = (f.acq_id, f.name)
            if k in seenf:
                self.fail("C08:duplicate-file", f"two file records {f.name!r} in acquisition {f.acq_id} ({where})")
            seenf.add(k)
            base = pathlib.PurePath(f.name).name
            if base.startswith(".") or any(p.startswith(".alpentemp") for p in pathlib.PurePath(f.name).parts):
                self.fail("C08:temp-registered", f"temporary / dot file registered as data: {f.acq.name}/{f.name} ({where})")
        for n in w.StorageNode.select():
            if n.storage_type not in "AFT":
                self.fail("C08:illegal-state", f"node {n.name} has storage_type {n.storage_type!r}")
        for r in w.ArchiveFileCopyRequest.select().where(w.ArchiveFileCopyRequest.completed == 1):
            if r.transfer_started is not None and r.transfer_completed is not None and r.transfer_started > r.transfer_completed:
                self.fail("C08:timestamps", f"request {r.id} completed before it started ({where})")
            if r.id in self.sim.just_completed:
                # (checked when the daemon completes it: an operator may later move nodes between groups)
                n = (w.ArchiveFileCopy.select().join(w.StorageNode).where(w.ArchiveFileCopy.file == r.file_id, w.StorageNode.group == r.group_to_id).count())
                if n == 0:
                    self.fail("C08:completed-without-copy", f"request {r.id} is completed but no copy record exists in its destination group ({where})")
                if r.transfer_started is None or r.transfer_completed is None:
                    self.fail("C08:timestamps", f"request {r.id} completed by the daemon without transfer timestamps ({where})")

    def agreement(self, where):
        """C08: index/storage agreement for copies not touched by tracked tampering"""
        sim = self.sim
        for c in w.ArchiveFileCopy.select():
            node, f = c.node, c.file
            rel = f"{f.acq.name}/{f.name}"
            if (node.name, rel) in sim.tainted:
                continue
            if getattr(sim, "unsettled", {}).get(node.host, 0) > 0:
                continue  # that host's daemon was killed and has not yet run two full iterations: not a quiescent point for its nodes
            p = pathlib.Path(node.root, rel)
            if c.has_file == "Y":
                if not p.is_file():
                    self.fail("C08:healthy-not-on-disk", f"copy of {rel} on {node.name} recorded healthy but absent from disk ({where})")
                elif f.size_b is not None and p.stat().st_size != f.size_b:
                    self.fail("C08:healthy-wrong-size", f"copy of {rel} on {node.name} recorded healthy, size on disk {p.stat().st_size} != registered {f.size_b} ({where})")
                elif f.md5sum is not None and p.stat().st_size <= 65536 and hashlib.md5(p.read_bytes()).hexdigest() != f.md5sum.lower():
                    self.fail("C08:healthy-wrong-bytes", f"copy of {rel} on {node.name} recorded healthy, but the bytes on disk do not have the registered digest ({where})")
            elif c.has_file == "N" and c.id in sim.removed_by_daemon and p.exists():
                self.fail("C08:removed-still-on-disk", f"copy of {rel} on {node.name} recorded removed by the daemon but still on disk ({where})")
