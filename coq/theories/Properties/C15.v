(* C15 — Discretionary cleaning is minimal and only under space pressure. *)
From Coq Require Import List NArith ZArith Bool.
From Alp Require Import Base.Str Base.Types Model.Select Proofs.SelectProofs.
Import ListNotations.
Open Scope Z_scope.

(* When the node is archive, free space is unknown, or free space is sufficient: only released copies. *)
Theorem C15_only_under_pressure : forall archive avail min cs,
  archive = true \/ avail = None \/ (exists a, avail = Some a /\ min <= a) ->
  Forall (fun c => k_wants c = WN) (selection archive avail min cs).
Proof. exact selection_no_pressure_cases. Qed.
Print Assumptions C15_only_under_pressure.

(* Only unwanted, tracked copies that are not the source of a pending request are ever selected. *)
Theorem C15_only_eligible : forall archive avail min cs c,
  In c (selection archive avail min cs) -> k_wants c <> WY /\ k_has c <> HN /\ k_pending c = false.
Proof. exact selection_only_eligible. Qed.
Print Assumptions C15_only_eligible.

(* Record order. *)
Theorem C15_record_order : forall archive avail min cs, subseq (selection archive avail min cs) cs.
Proof. exact selection_in_order. Qed.
Print Assumptions C15_record_order.

(* Released copies are always selected (whatever the space situation). *)
Theorem C15_released_always : forall archive avail min cs c,
  In c cs -> k_wants c = WN -> k_has c <> HN -> k_pending c = false -> In c (selection archive avail min cs).
Proof. exact selection_released_taken. Qed.
Print Assumptions C15_released_always.

(* Minimal: a removable copy is selected only while everything already queued in this pass (released or
   removable, credited with the copy's size, else the file's, else nothing) is short of the shortfall. *)
Theorem C15_minimal : forall archive avail min cs,
  nonneg cs -> minimal (pass_need archive avail min) 0 (selection archive avail min cs).
Proof. exact selection_minimal. Qed.
Print Assumptions C15_minimal.

(* ... and enough: the shortfall is covered, or every eligible non-pending copy was selected. *)
Theorem C15_sufficient : forall archive avail min cs,
  nonneg cs ->
  pass_need archive avail min <= total (selection archive avail min cs) \/
  (forall c, In c cs -> eligible (discretionary (under_min avail min) archive) c = true -> k_pending c = false ->
             In c (selection archive avail min cs)).
Proof. exact selection_sufficient. Qed.
Print Assumptions C15_sufficient.

(* Grouping into delete tasks neither drops, duplicates nor reorders, and never issues an empty task. *)
Theorem C15_batches : forall archive avail min cs,
  concat (update_delete archive avail min cs) = map k_id (selection archive avail min cs)
  /\ Forall (fun b => b <> []) (update_delete archive avail min cs).
Proof. exact update_delete_batches. Qed.
Print Assumptions C15_batches.

Example C15_example : update_delete false (Some 1023) 1024 ex_cands = [[1; 2; 4]%N] /\ nonneg ex_cands.
Proof. exact example_pass. Qed.
