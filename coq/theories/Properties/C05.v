(* C05 — Quiescent convergence (item model: Model/Item.v). *)
From Coq Require Import List NArith ZArith Bool Arith.
From Alp Require Import Base.Str Base.Types Model.Pull Model.Item Proofs.ItemProofs Model.Transport Proofs.TransportProofs Model.Dispatch Proofs.DispatchProofs.
Import ListNotations.

(* From every state of an item (consistent or not) and in every environment, four fault-free rounds of all daemons reach a
   fixed point ... *)
Theorem C05_fixed_point_within_four_rounds : forall e i, round e BWorks (rounds 4 e i) = rounds 4 e i.
Proof. exact fixed_point_within_four. Qed.
Print Assumptions C05_fixed_point_within_four_rounds.
Theorem C05_quiescent_forever : forall e i n, rounds (4 + n) e i = rounds 4 e i.
Proof. exact quiescent_forever. Qed.
Print Assumptions C05_quiescent_forever.
(* ... at which: no copy on a managed node is still suspect unless it is released; a released copy is deleted unless the
   deletion-safety rule holds it back; a request is completed, cancelled, or pending for one of the documented reasons *)
Theorem C05_residual_work_is_blocked : forall e i, let x := rounds 4 e i in
  (src_active e = true -> src_has x <> HM) /\
  (dst_usable e = true -> dst_state x = HM -> wants_of x = WN) /\
  (dst_usable e = true -> forall h, dst_row x = Some (h, WN) -> h = HN \/ del_ok e = false) /\
  (req x = Pending -> exists r, blocked e x = Some r).
Proof. exact residual_work_is_blocked. Qed.
Print Assumptions C05_residual_work_is_blocked.
(* the reasons are the documented ones, and each is genuine *)
Theorem C05_reasons_are_genuine : forall e i r, blocked e i = Some r ->
  match r with
  | NoUsableNode => dst_usable e = false
  | DestinationAwaitingCheck => dst_state i = HM
  | SourceInactive => src_active e = false
  | SourceSuspect => src_has i = HM
  | DestinationFull => gate_ok e = false
  | NoTransportRoute => rt e <> Tool
  end.
Proof. exact reasons_are_genuine. Qed.
Print Assumptions C05_reasons_are_genuine.

(* Transport groups (TransportGroupIO.pull_force): a local pull is handed to a node iff some node of the group is not under its
   minimum, not over its limit and has room; the node chosen is such a node with the least free space (the fullest that fits);
   a non-local pull is never handed over ("destination without a usable node" / "no transport route") *)
Theorem C05_transport_choice : forall local nodes i, choose local nodes = Some i ->
  local = true /\ exists n, In n nodes /\ t_id n = i /\ eligible n = true /\ forall m, In m nodes -> eligible m = true -> Z.le (key n) (key m).
Proof. exact choose_some. Qed.
Print Assumptions C05_transport_choice.
Theorem C05_transport_none : forall local nodes, choose local nodes = None <-> local = false \/ forall n, In n nodes -> eligible n = false.
Proof. exact choose_none. Qed.
Print Assumptions C05_transport_none.

Example C05_example : rounds 1 ex_env ex_item = rounds 4 ex_env ex_item /\ req (rounds 1 ex_env ex_item) = Completed.
Proof. exact example_converge. Qed.
Example C05_example_transport : choose true ex_tnodes = Some 3%N /\ choose false ex_tnodes = None.
Proof. exact example_transport. Qed.

(* A request that only was skipped (inactive or suspect source, ...) never keeps another request for the same file waiting: in every
   pass, every file that has some dispatchable pending request gets a pull (fix F-C05b), for every request table. *)
Theorem C05_skipped_request_does_not_starve : forall seen reqs r, In r reqs -> r_ok r = true -> ~ In (r_file r) seen ->
  exists r', In r' (snd (pass seen reqs)) /\ r_file r' = r_file r.
Proof. exact pass_no_starvation. Qed.
Print Assumptions C05_skipped_request_does_not_starve.
Theorem C05_considered_unless_already_pulled : forall seen reqs r, In r (fst (pass seen reqs)) -> In r reqs /\ ~ In (r_file r) seen.
Proof. exact pass_considered. Qed.
Print Assumptions C05_considered_unless_already_pulled.
