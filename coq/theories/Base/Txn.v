(* Statement scripts with a fault at the k-th statement; atomic() blocks roll back. *)
From Coq Require Import List Arith Bool.
Import ListNotations.

Section Txn.
  Variable index : Type.
  Inductive stmt := Read | Write (f : index -> index).

  (* statements 0..k-1 succeed, statement k raises (None = no fault); returns (index, raised?) *)
  Fixpoint run (l : list stmt) (k : option nat) (i : index) : index * bool :=
    match l with
    | [] => (i, false)
    | s :: l' =>
        match k with
        | Some O => (i, true)
        | _ => let i' := match s with Read => i | Write f => f i end in
               run l' (match k with Some (S m) => Some m | _ => None end) i'
        end
    end.
  (* with database_proxy.atomic(): roll back on exception *)
  Definition run_atomic (l : list stmt) (k : option nat) (i : index) : index :=
    let '(i', raised) := run l k i in if raised then i else i'.
  (* no transaction: what was written stays *)
  Definition run_plain (l : list stmt) (k : option nat) (i : index) : index := fst (run l k i).
  Definition writes (l : list stmt) : nat := length (filter (fun s => match s with Write _ => true | Read => false end) l).
End Txn.
Arguments Read {index}.
Arguments Write {index} f.
