(* C18: the record selections of node clean / node verify / node+group sync / file clean and their cancel forms. *)
From Coq Require Import List NArith ZArith Bool.
From Alp Require Import Base.Str Base.Types.
Import ListNotations.

Record cpy := { k_id : N; k_file : N; k_node : N; k_has : has; k_wants : wants }.
Record fil := { f_id : N; f_acq : N; f_size : option Z; f_reg : Z }.           (* registration time, seconds *)
Record rq := { q_id : N; q_file : N; q_from : N; q_to : N; q_done : bool; q_canc : bool }.
Record idx := { copies : list cpy; files : list fil; reqs : list rq; ngroup : list (N * N) }.   (* tables in id order *)

Fixpoint assoc (n : N) (l : list (N * N)) : N := match l with [] => 0%N | (k, v) :: l' => if N.eqb k n then v else assoc n l' end.
Definition group_of (i : idx) (n : N) : N := assoc n (ngroup i).
Definition memN (x : N) (l : list N) : bool := existsb (N.eqb x) l.
Definition file_of (i : idx) (f : N) : option fil := find (fun r => N.eqb (f_id r) f) (files i).
Definition size_of (i : idx) (f : N) : Z := match file_of i f with Some r => match f_size r with Some z => z | None => 0%Z end | None => 0%Z end.
Definition acq_of (i : idx) (f : N) : N := match file_of i f with Some r => f_acq r | None => 0%N end.
Definition reg_of (i : idx) (f : N) : Z := match file_of i f with Some r => f_reg r | None => 0%Z end.

(* options.state_constraint(healthy=True): the default "file is in the group/node" test *)
Definition healthy (c : cpy) : bool := has_eqb (k_has c) HY && negb (wants_eqb (k_wants c) WN).
Definition in_group_healthy (i : idx) (g f : N) : bool :=
  existsb (fun c => N.eqb (k_file c) f && N.eqb (group_of i (k_node c)) g && healthy c) (copies i).
(* files_in_groups(targets, in_any=False): None when no target was given *)
Definition in_all_targets (i : idx) (targets : list N) (f : N) : bool := forallb (fun g => in_group_healthy i g f) targets.
Definition in_any_target (i : idx) (targets : list N) (f : N) : bool := existsb (fun g => in_group_healthy i g f) targets.

Definition opt_mem (l : option (list N)) (x : N) : bool := match l with None => true | Some l => memN x l end.
Definition acq_ok (i : idx) (acqs : list N) (f : N) : bool := match acqs with [] => true | _ => memN (acq_of i f) acqs end.

(* ---------------- node clean ---------------- *)
Record clean_opts := { co_node : N; co_acqs : list N; co_days : option Z; co_now : Z; co_listed : option (list N);
                       co_size : option Z; co_targets : list N; co_goal : wants; co_bad : bool }.

Definition has_ok (bad : bool) (c : cpy) : bool := if bad then negb (has_eqb (k_has c) HN) else has_eqb (k_has c) HY.
(* without --size the query keeps only copies that would change *)
Definition wants_changes (goal w : wants) : bool := match goal with WM => wants_eqb w WY | _ => negb (wants_eqb w goal) end.
(* as implemented: days = utcnow() - timedelta(days=-days); registered > days   (see known finding KF-C18a) *)
Definition days_ok (o : clean_opts) (i : idx) (f : N) : bool :=
  match co_days o with None => true | Some d => (co_now o + d * 86400 <? reg_of i f)%Z end.
Definition clean_query (o : clean_opts) (i : idx) (c : cpy) : bool :=
  N.eqb (k_node c) (co_node o) && has_ok (co_bad o) c
  && (match co_size o with None => wants_changes (co_goal o) (k_wants c) | Some _ => true end)
  && acq_ok i (co_acqs o) (k_file c) && opt_mem (co_listed o) (k_file c) && days_ok o i (k_file c).
(* node clean --target: files_in_groups with state_expr = healthy & (StorageNode.id != node.id): the copy on the node being
   cleaned does not make the file "available in the target" *)
Definition in_group_healthy_except (i : idx) (skip g f : N) : bool :=
  existsb (fun c => N.eqb (k_file c) f && N.eqb (group_of i (k_node c)) g && healthy c && negb (N.eqb (k_node c) skip)) (copies i).
Definition target_ok (o : clean_opts) (i : idx) (c : cpy) : bool :=
  match co_targets o with [] => true | ts => forallb (fun g => in_group_healthy_except i (co_node o) g (k_file c)) ts end.

(* already in the wanted state (counts toward --size, is not updated) *)
Definition satisfied (goal w : wants) : bool := wants_eqb w goal || (wants_eqb goal WM && wants_eqb w WN).
(* the loop over the query result in id order, with the running total of --size *)
Fixpoint walk (i : idx) (goal : wants) (size : Z) (total : Z) (l : list cpy) : list N :=
  match l with
  | [] => []
  | c :: l' =>
      let total' := (total + size_of i (k_file c))%Z in
      if satisfied goal (k_wants c) then (if (size <=? total')%Z then [] else walk i goal size total' l')
      else k_id c :: (if (size <=? total')%Z then [] else walk i goal size total' l')
  end.

Definition clean_select (o : clean_opts) (i : idx) : list N :=
  let cands := filter (fun c => clean_query o i c && target_ok o i c) (copies i) in
  match co_size o with
  | None => map k_id cands
  | Some s => walk i (co_goal o) s 0 cands
  end.
Definition set_wants (goal : wants) (ids : list N) (c : cpy) : cpy :=
  if memN (k_id c) ids then {| k_id := k_id c; k_file := k_file c; k_node := k_node c; k_has := k_has c; k_wants := goal |} else c.
Definition with_copies (i : idx) (cs : list cpy) : idx := {| copies := cs; files := files i; reqs := reqs i; ngroup := ngroup i |}.
Definition clean_apply (o : clean_opts) (i : idx) : idx := with_copies i (map (set_wants (co_goal o) (clean_select o i)) (copies i)).

(* the documented selection (help text of "node clean"): the copies on NODE of the right state whose file passes
   --acq / --file-list / --target; --size then takes, in record order, copies up to the first point where the running
   size of all candidates reaches SIZE, skipping those already scheduled.  --days as documented: registered more than
   COUNT days ago. *)
Definition days_documented (o : clean_opts) (i : idx) (f : N) : bool :=
  match co_days o with None => true | Some d => (reg_of i f <? co_now o - d * 86400)%Z end.

(* ---------------- node verify ---------------- *)
Record verify_opts := { vo_node : N; vo_acqs : list N; vo_listed : option (list N); vo_cancel : bool;
                        vo_corrupt : bool; vo_healthy : bool; vo_missing : bool; vo_all : bool }.
Definition verify_goal (o : verify_opts) : has :=
  if vo_cancel o then (if vo_healthy o then HY else if vo_missing o then HN else HX) else HM.
Definition state_sel (corrupt healthy_ missing : bool) (c : cpy) : bool :=
  (corrupt && has_eqb (k_has c) HX && negb (wants_eqb (k_wants c) WN))
  || (healthy_ && has_eqb (k_has c) HY && negb (wants_eqb (k_wants c) WN))
  || (missing && has_eqb (k_has c) HN && wants_eqb (k_wants c) WY).
Definition verify_state (o : verify_opts) (c : cpy) : bool :=
  if vo_cancel o then has_eqb (k_has c) HM && negb (wants_eqb (k_wants c) WN)
  else if vo_all o then state_sel true true true c
  else if negb (vo_corrupt o) && negb (vo_healthy o) && negb (vo_missing o) then state_sel true false true c
  else state_sel (vo_corrupt o) (vo_healthy o) (vo_missing o) c.
Definition verify_select (o : verify_opts) (i : idx) : list N :=
  map k_id (filter (fun c => N.eqb (k_node c) (vo_node o) && verify_state o c && acq_ok i (vo_acqs o) (k_file c) && opt_mem (vo_listed o) (k_file c)) (copies i)).
Definition set_has (goal : has) (ids : list N) (c : cpy) : cpy :=
  if memN (k_id c) ids then {| k_id := k_id c; k_file := k_file c; k_node := k_node c; k_has := goal; k_wants := k_wants c |} else c.
Definition verify_apply (o : verify_opts) (i : idx) : idx := with_copies i (map (set_has (verify_goal o) (verify_select o i)) (copies i)).

(* ---------------- node sync / group sync ---------------- *)
Record sync_opts := { so_node : option N; so_group : option N; so_acqs : list N; so_listed : option (list N); so_targets : list N }.
Definition pending (r : rq) : bool := negb (q_done r) && negb (q_canc r).
Definition in_group_present (i : idx) (g f : N) : bool :=
  existsb (fun c => N.eqb (k_file c) f && N.eqb (group_of i (k_node c)) g && has_eqb (k_has c) HY) (copies i).
Definition active_transfer (i : idx) (n g f : N) : bool :=
  existsb (fun r => N.eqb (q_file r) f && N.eqb (q_from r) n && N.eqb (q_to r) g && pending r) (reqs i).
(* files to request, in file id order *)
Definition sync_select (o : sync_opts) (i : idx) : list N :=
  match so_node o, so_group o with
  | Some n, Some g =>
      map f_id (filter (fun f =>
        existsb (fun c => N.eqb (k_file c) (f_id f) && N.eqb (k_node c) n && has_eqb (k_has c) HY) (copies i)
        && negb (in_any_target i (so_targets o) (f_id f)) && negb (in_group_present i g (f_id f))
        && opt_mem (so_listed o) (f_id f) && acq_ok i (so_acqs o) (f_id f)
        && negb (active_transfer i n g (f_id f))) (files i))
  | _, _ => []
  end.
Definition next_id (l : list rq) : N := N.succ (fold_right (fun r m => N.max (q_id r) m) 0%N l).
Fixpoint new_reqs (start : N) (n g : N) (fs : list N) : list rq :=
  match fs with [] => [] | f :: fs' => {| q_id := start; q_file := f; q_from := n; q_to := g; q_done := false; q_canc := false |} :: new_reqs (N.succ start) n g fs' end.
Definition with_reqs (i : idx) (rs : list rq) : idx := {| copies := copies i; files := files i; reqs := rs; ngroup := ngroup i |}.
Definition sync_apply (o : sync_opts) (i : idx) : idx :=
  match so_node o, so_group o with
  | Some n, Some g => with_reqs i (reqs i ++ new_reqs (next_id (reqs i)) n g (sync_select o i))
  | _, _ => i
  end.

Definition opt_eq (o : option N) (x : N) : bool := match o with None => true | Some y => N.eqb x y end.
Definition cancel_select (o : sync_opts) (i : idx) : list N :=
  map q_id (filter (fun r => pending r && opt_eq (so_node o) (q_from r) && opt_eq (so_group o) (q_to r)
                             && opt_mem (so_listed o) (q_file r) && acq_ok i (so_acqs o) (q_file r)) (reqs i)).
Definition set_cancelled (ids : list N) (r : rq) : rq :=
  if memN (q_id r) ids then {| q_id := q_id r; q_file := q_file r; q_from := q_from r; q_to := q_to r; q_done := q_done r; q_canc := true |} else r.
Definition cancel_apply (o : sync_opts) (i : idx) : idx := with_reqs i (map (set_cancelled (cancel_select o i)) (reqs i)).

(* ---------------- file clean ---------------- *)
Definition fclean_select (file : N) (node : option N) (cancel : bool) (i : idx) : list N :=
  map k_id (filter (fun c => N.eqb (k_file c) file && opt_eq node (k_node c) && (if cancel then negb (has_eqb (k_has c) HN) else true)) (copies i)).
Definition fclean_apply (file : N) (node : option N) (goal : wants) (i : idx) : idx :=
  with_copies i (map (set_wants goal (fclean_select file node (wants_eqb goal WY) i)) (copies i)).
