"""C12 shares the machinery of C11 (same model file, same harness); only the property file differs."""
from vf.props.c11 import *  # noqa: F401,F403
from vf.props import c11 as _c11

TRUSTED = _c11.TRUSTED
RULE = _c11.RULE
