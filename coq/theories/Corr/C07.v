(* Correspondence for C07: one iteration of the real update_loop on a random node table *)
From Coq Require Import List NArith Bool.
From Alp Require Import Base.Str Base.Types Model.Locality.
Import ListNotations.
Definition ND (name host : str) (active : bool) (m : marker) : node := {| n_name := name; n_host := host; n_active := active; n_marker := m |}.
Definition marker_eqb (a b : marker) : bool :=
  match a, b with MAbsent, MAbsent | MUnreadable, MUnreadable => true | MLine x, MLine y => str_eqb x y | _, _ => false end.
Inductive case :=
| CIter (host : str) (nodes : list (node * bool)) (managed : list bool) (markers_after : list marker) (req_done : list bool)
| CStrip (s stripped : str).
Definition check (c : case) : bool :=
  match c with
  | CIter host nodes managed after done =>
      let ns := map fst nodes in
      list_eqb Bool.eqb (map (fun p => match vet host (snd p) (fst p) with Manage => true | _ => false end) nodes) managed
      && list_eqb marker_eqb (map (fun p => match vet host (snd p) (fst p) with QueueInit => n_marker (fst (init_task (fst p))) | _ => n_marker (fst p) end) nodes) after
      && list_eqb Bool.eqb (map (fun p => match vet host (snd p) (fst p) with QueueInit => snd (init_task (fst p)) | Manage => snd p | Ignore => false end) nodes) done
  | CStrip s t => str_eqb (rstrip s) t
  end.
