From Coq Require Import List ZArith Bool Lia Arith ZifyBool.
From Alp Require Import Model.UpDown.
Import ListNotations.
Open Scope Z_scope.
Local Arguments Z.add : simpl never.
Local Arguments Z.sub : simpl never.
Local Arguments Z.leb : simpl never.
Local Arguments Z.ltb : simpl never.
Local Arguments Z.eqb : simpl never.
Local Arguments Z.mul : simpl never.
Local Arguments Z.of_nat : simpl never.
Local Arguments Z.opp : simpl never.

Lemma upd_same {A} (f : tid -> A) t v : upd f t v t = v.
Proof. unfold upd. now rewrite Nat.eqb_refl. Qed.
Lemma upd_other {A} (f : tid -> A) t u v : u <> t -> upd f t v u = f u.
Proof. unfold upd. intros H. destruct (Nat.eqb_spec u t); congruence. Qed.

(* ---- structural invariant ---- *)
Definition Inv (s : st) : Prop :=
  (forall t, 0 <= owners s t) /\
  (forall t w dl, pcs s t = Waiting w dl -> compatible w (count s) = false /\ owners s t = 0) /\
  (forall t w dl, pcs s t = Woken w dl -> owners s t = 0).

Lemma inv_init : Inv init.
Proof. split; [|split]; cbn; intros; try lia; discriminate. Qed.

Lemma compat_after_got w w' c : compatible w c = true -> compatible w' c = false -> compatible w' (c + sgn w) = false.
Proof. unfold compatible, ok_up, ok_down. destruct w, w'; cbn; lia. Qed.

Lemma try_acquire_inv b dl now w t s :
  Inv s -> owners s t = 0 \/ pcs s t = Idle -> (forall w' d', pcs s t <> Waiting w' d') ->
  Inv (fst (try_acquire b dl now w t s)).
Proof.
  intros (Hown & Hw & Hk) Hme Hnw. unfold try_acquire.
  destruct (compatible w (count s)) eqn:Hc; cbn [fst].
  - split; [|split]; cbn [count owners pcs].
    + intros u. unfold upd. destruct (Nat.eqb u t); [specialize (Hown t); lia | apply Hown].
    + intros u w' d' Hu. unfold upd in *. destruct (Nat.eqb_spec u t) as [->|Hne]; [discriminate|].
      destruct (Hw _ _ _ Hu) as [Hc' Ho']. split; [apply compat_after_got; assumption | exact Ho'].
    + intros u w' d' Hu. unfold upd in *. destruct (Nat.eqb_spec u t) as [->|Hne]; [discriminate|]. apply (Hk _ _ _ Hu).
  - assert (Hback : forall p, (forall w' d', p = Waiting w' d' -> w' = w /\ owners s t = 0) -> (forall w' d', p = Woken w' d' -> False) ->
                     Inv {| count := count s; owners := owners s; pcs := upd (pcs s) t p |}).
    { intros p Hp1 Hp2. split; [|split]; cbn [count owners pcs].
      - exact Hown.
      - intros u w' d' Hu. unfold upd in Hu. destruct (Nat.eqb_spec u t) as [->|Hne].
        + destruct (Hp1 _ _ Hu) as [-> Ho]. split; assumption.
        + apply (Hw _ _ _ Hu).
      - intros u w' d' Hu. unfold upd in Hu. destruct (Nat.eqb_spec u t) as [->|Hne]; [destruct (Hp2 _ _ Hu) | apply (Hk _ _ _ Hu)]. }
    destruct (holds_other (owners s t)) eqn:Ho; cbn [fst]; [apply Hback; intros; discriminate|].
    assert (Ho0 : owners s t = 0) by (unfold holds_other in Ho; specialize (Hown t); lia).
    destruct b; cbn [negb fst]; [|apply Hback; intros; discriminate].
    destruct dl as [d|]; [destruct (out_of_time (d - now))|]; cbn [fst]; apply Hback; intros w' d' Hp; try discriminate;
      injection Hp as <- _; auto.
Qed.

Lemma release_inv w t s : Inv s -> pcs s t = Idle -> Inv (fst (release w t s)).
Proof.
  intros (Hown & Hw & Hk) Hpc. unfold release.
  destruct ((match w with Up => held_up (count s) | Down => held_down (count s) end) && negb (not_owner (owners s t))) eqn:Hh;
    cbn [fst]; [|split; [|split]; assumption].
  apply andb_prop in Hh as [Hheld Ho]. unfold not_owner in Ho.
  split; [|split]; cbn [count owners pcs].
  - intros u. unfold upd. destruct (Nat.eqb u t); [specialize (Hown t); lia | apply Hown].
  - intros u w' d' Hu. destruct (now_free (count s - sgn w)) eqn:Hz.
    + unfold wake_all in Hu. destruct (pcs s u); discriminate.
    + destruct (Hw _ _ _ Hu) as [Hc' Ho']. split.
      * unfold now_free in Hz. unfold compatible, ok_up, ok_down, held_up, held_down in *. destruct w, w'; cbn in *; lia.
      * unfold upd. destruct (Nat.eqb_spec u t) as [->|]; [rewrite Hpc in Hu; discriminate | exact Ho'].
  - intros u w' d' Hu. destruct (now_free (count s - sgn w)) eqn:Hz.
    + unfold wake_all in Hu. unfold upd. destruct (Nat.eqb_spec u t) as [->|]; [rewrite Hpc in Hu; discriminate|].
      destruct (pcs s u) eqn:Hp; try discriminate; [apply (Hw _ _ _ Hp) | apply (Hk _ _ _ Hp)].
    + unfold upd. destruct (Nat.eqb_spec u t) as [->|]; [rewrite Hpc in Hu; discriminate | apply (Hk _ _ _ Hu)].
Qed.

Lemma inv_step s l : Inv s -> Inv (fst (step s l)).
Proof.
  intros HI. destruct l as [b tmo now w t | now t | now t | w t]; cbn [step].
  - destruct (pcs s t) eqn:Hpc; try exact HI. apply try_acquire_inv; [exact HI | right; exact Hpc | intros; congruence].
  - destruct (pcs s t) as [|w [d|]|] eqn:Hpc; try exact HI. destruct (d <=? now); [|exact HI]. cbn [fst].
    destruct HI as (Hown & Hw & Hk). split; [|split]; cbn [count owners pcs].
    + exact Hown.
    + intros u w' d' Hu. unfold upd in Hu. destruct (Nat.eqb_spec u t); [discriminate | apply (Hw _ _ _ Hu)].
    + intros u w' d' Hu. unfold upd in Hu. destruct (Nat.eqb_spec u t) as [->|]; [apply (Hw _ _ _ Hpc) | apply (Hk _ _ _ Hu)].
  - destruct (pcs s t) eqn:Hpc; try exact HI. apply try_acquire_inv; [exact HI | left; destruct HI as (_ & _ & Hk); apply (Hk _ _ _ Hpc) | intros; congruence].
  - destruct (pcs s t) eqn:Hpc; try exact HI. apply release_inv; assumption.
Qed.

Lemma inv_run ls : forall s, Inv s -> Inv (run_from s ls).
Proof. induction ls as [|l ls IH]; cbn; intros s Hs; [exact Hs|]. apply IH, inv_step, Hs. Qed.
Lemma inv_reach ls : Inv (reach ls).
Proof. apply inv_run, inv_init. Qed.

(* no lost wake-up: in every reachable state a free lock has no sleeper *)
Lemma free_lock_no_sleeper ls t w dl : count (reach ls) = 0 -> pcs (reach ls) t <> Waiting w dl.
Proof.
  intros Hc Hp. destruct (inv_reach ls) as (_ & Hw & _). destruct (Hw _ _ _ Hp) as [Hcomp _].
  rewrite Hc in Hcomp. destruct w; cbn in Hcomp; discriminate.
Qed.

(* ---- ghost tokens ---- *)
Definition holds_of (t : tid) (l : list token) : Z := Z.of_nat (length (filter (fun x => Nat.eqb (fst x) t) l)).

Definition GInv (sg : st * list token) : Prop :=
  let '(s, g) := sg in
  (exists w0, Forall (fun x => snd x = w0) g /\ count s = sgn w0 * Z.of_nat (length g)) /\
  (forall t, owners s t = holds_of t g).

Lemma holds_cons t u w g : holds_of t ((u, w) :: g) = (if Nat.eqb u t then 1 else 0) + holds_of t g.
Proof. unfold holds_of. cbn [filter fst]. destruct (Nat.eqb u t); cbn [length]; lia. Qed.

Lemma remove_one_spec t g :
  0 < holds_of t g ->
  length (remove_one t g) = pred (length g) /\ (0 < length g)%nat /\
  (forall u, holds_of u (remove_one t g) = holds_of u g - (if Nat.eqb t u then 1 else 0)) /\
  (forall w0, Forall (fun x => snd x = w0) g -> Forall (fun x => snd x = w0) (remove_one t g)).
Proof.
  induction g as [|[u w] g IH]; intros H; [unfold holds_of in H; cbn in H; lia|].
  cbn [remove_one]. destruct (Nat.eqb_spec u t) as [->|Hne].
  - repeat split; cbn [length]; try lia.
    + intros v. rewrite holds_cons. rewrite (Nat.eqb_sym t v). destruct (Nat.eqb v t); lia.
    + intros w0 F. inversion F; assumption.
  - rewrite holds_cons in H. destruct (Nat.eqb_spec u t); [congruence|].
    destruct (IH ltac:(lia)) as (L & P & Hh & F).
    repeat split; cbn [length]; try lia.
    + intros v. rewrite !holds_cons, Hh. lia.
    + intros w0 Fw. inversion Fw as [|? ? Hhd Htl]. constructor; [exact Hhd | apply F; exact Htl].
Qed.

Lemma ginv_init : GInv (init, []).
Proof. split; [exists Up; split; [constructor | reflexivity] | intros t; reflexivity]. Qed.

Lemma acquire_ginv b dl now w t s g :
  GInv (s, g) ->
  GInv (fst (try_acquire b dl now w t s), match snd (try_acquire b dl now w t s) with Got => (t, w) :: g | _ => g end).
Proof.
  intros [(w0 & F & C) O]. unfold try_acquire.
  destruct (compatible w (count s)) eqn:Hc; cbn [fst snd].
  - split.
    + cbn [count]. destruct g as [|x g].
      * exists w. split; [constructor; [reflexivity|constructor]|]. cbn [length] in *. lia.
      * assert (w0 = w).
        { cbn [length] in C. unfold compatible, ok_up, ok_down in Hc. destruct w0, w; try reflexivity; cbn in *; lia. }
        subst w0. exists w. split; [constructor; [reflexivity|exact F]|]. cbn [length] in *. lia.
    + intros u. cbn [owners]. unfold upd. rewrite holds_cons, (Nat.eqb_sym t u).
      destruct (Nat.eqb_spec u t) as [->|]; rewrite ?O; lia.
  - destruct (holds_other (owners s t)); cbn [fst snd]; [split; [exists w0; split; assumption | exact O]|].
    destruct (negb b); cbn [fst snd]; [split; [exists w0; split; assumption | exact O]|].
    destruct dl as [d|]; [destruct (out_of_time (d - now))|]; cbn [fst snd]; (split; [exists w0; split; assumption | exact O]).
Qed.

Lemma release_ginv w t s g :
  GInv (s, g) ->
  GInv (fst (release w t s), match snd (release w t s) with ReleasedOk => remove_one t g | _ => g end).
Proof.
  intros [(w0 & F & C) O]. unfold release.
  destruct ((match w with Up => held_up (count s) | Down => held_down (count s) end) && negb (not_owner (owners s t))) eqn:Hh;
    cbn [fst snd]; [|split; [exists w0; split; assumption | exact O]].
  apply andb_prop in Hh as [Hheld Ho]. unfold not_owner in Ho.
  assert (Hpos : 0 < holds_of t g).
  { rewrite <- O. assert (0 <= holds_of t g) by (unfold holds_of; lia). rewrite <- O in H. lia. }
  destruct (remove_one_spec t g Hpos) as (L & P & Hh & FF).
  assert (w0 = w) by (unfold held_up, held_down in Hheld; destruct w0, w; try reflexivity; cbn in *; lia). subst w0.
  split.
  - exists w. split; [apply FF, F|]. cbn [count]. rewrite L. destruct w; cbn in *; lia.
  - intros u. cbn [owners]. unfold upd. rewrite Hh, (Nat.eqb_sym t u).
    destruct (Nat.eqb_spec u t) as [->|]; rewrite ?O; lia.
Qed.

Lemma ginv_step sg l : GInv sg -> GInv (gstep sg l).
Proof.
  destruct sg as [s g]. intros H. unfold gstep.
  destruct l as [b tmo now w t | now t | now t | w t]; cbn [step].
  - destruct (pcs s t); try exact H.
    pose proof (acquire_ginv b (match tmo with None => None | Some n => Some (now + n) end) now w t s g H) as G.
    destruct (try_acquire _ _ _ _ _ _) as [s' o]. cbn [fst snd] in G. destruct o; exact G.
  - destruct (pcs s t) as [|w [d|]|]; try exact H. destruct (d <=? now); [|exact H].
    destruct H as [(w0 & F & C) O]. split; [exists w0; split; assumption | exact O].
  - destruct (pcs s t) as [| |w dl] eqn:Hp; try exact H.
    pose proof (acquire_ginv true dl now w t s g H) as G.
    destruct (try_acquire _ _ _ _ _ _) as [s' o]. cbn [fst snd] in G. destruct o; exact G.
  - destruct (pcs s t); try exact H.
    pose proof (release_ginv w t s g H) as G.
    destruct (release w t s) as [s' o]. cbn [fst snd] in G. destruct o; exact G.
Qed.

Lemma ginv_greach ls : GInv (greach ls).
Proof.
  unfold greach. assert (H : forall sg, GInv sg -> GInv (fold_left gstep ls sg)).
  { induction ls as [|l ls IH]; cbn; intros sg Hs; [exact Hs|]. apply IH, ginv_step, Hs. }
  apply H, ginv_init.
Qed.

Lemma greach_fst ls : fst (greach ls) = reach ls.
Proof.
  unfold greach, reach, run_from.
  assert (H : forall sg, fst (fold_left gstep ls sg) = fold_left (fun s l => fst (step s l)) ls (fst sg)).
  { induction ls as [|l ls IH]; intros [s g]; [reflexivity|]. cbn [fold_left]. rewrite IH. f_equal.
    unfold gstep. cbn [fst]. destruct (step s l) as [s0 o] eqn:E. reflexivity. }
  apply (H (init, [])).
Qed.

(* exclusion: never an up-holder and a down-holder at once *)
Lemma exclusion ls t1 t2 : ~ (In (t1, Up) (snd (greach ls)) /\ In (t2, Down) (snd (greach ls))).
Proof.
  pose proof (ginv_greach ls) as H. destruct (greach ls) as [s g]. cbn [snd].
  destruct H as [(w0 & F & _) _]. rewrite Forall_forall in F. intros [H1 H2].
  pose proof (F _ H1) as E1. pose proof (F _ H2) as E2. cbn in E1, E2. congruence.
Qed.

Lemma holds_pos_in t g : 0 < holds_of t g -> exists w, In (t, w) g.
Proof.
  induction g as [|[u w] g IH]; [unfold holds_of; cbn; lia|]. rewrite holds_cons.
  destruct (Nat.eqb_spec u t) as [->|]; [intros _; exists w; left; reflexivity|].
  intros H. destruct (IH ltac:(lia)) as [w' Hw']. exists w'; right; exact Hw'.
Qed.
Lemma in_holds_pos t w g : In (t, w) g -> 0 < holds_of t g.
Proof.
  induction g as [|[u w'] g IH]; [intros []|]. rewrite holds_cons. intros [E|H].
  - injection E as -> _. rewrite Nat.eqb_refl. assert (0 <= holds_of t g) by (unfold holds_of; lia). lia.
  - specialize (IH H). destruct (Nat.eqb u t); lia.
Qed.

(* a holder re-acquires in the same state; a holder asking for the opposite state is refused *)
Lemma holder_facts ls t w : In (t, w) (snd (greach ls)) ->
  compatible w (count (reach ls)) = true /\
  compatible (opp w) (count (reach ls)) = false /\
  0 < owners (reach ls) t.
Proof.
  pose proof (ginv_greach ls) as H. rewrite <- greach_fst. destruct (greach ls) as [s g]. cbn [fst snd].
  destruct H as [(w0 & F & C) O]. intros Hin. rewrite Forall_forall in F. pose proof (F _ Hin) as E. cbn in E. subst w0.
  assert (0 < length g)%nat by (destruct g; [destruct Hin | cbn; lia]).
  repeat split.
  - unfold compatible, ok_up, ok_down. destruct w; cbn in *; lia.
  - unfold compatible, opp, ok_up, ok_down. destruct w; cbn in *; lia.
  - rewrite O. eapply in_holds_pos, Hin.
Qed.

Lemma reentrant ls t w b tmo now : In (t, w) (snd (greach ls)) -> pcs (reach ls) t = Idle ->
  snd (step (reach ls) (LAcq b tmo now w t)) = Got.
Proof.
  intros Hin Hpc. destruct (holder_facts ls t w Hin) as (Hc & _ & _).
  cbn [step]. rewrite Hpc. unfold try_acquire. rewrite Hc. reflexivity.
Qed.

Lemma opposite_refused ls t w b tmo now : In (t, w) (snd (greach ls)) -> pcs (reach ls) t = Idle ->
  step (reach ls) (LAcq b tmo now (opp w) t) =
    ({| count := count (reach ls); owners := owners (reach ls); pcs := upd (pcs (reach ls)) t Idle |}, Refused).
Proof.
  intros Hin Hpc. destruct (holder_facts ls t w Hin) as (_ & Hc & Ho).
  cbn [step]. rewrite Hpc. unfold try_acquire. rewrite Hc.
  unfold holds_other. destruct (0 <? owners (reach ls) t) eqn:E; [reflexivity | lia].
Qed.

Lemma nonholder_rejected ls t w : (forall w', ~ In (t, w') (snd (greach ls))) ->
  step (reach ls) (LRel w t) = (reach ls, NotHeld) \/ step (reach ls) (LRel w t) = (reach ls, Noop).
Proof.
  intros Hno. pose proof (ginv_greach ls) as H. rewrite <- greach_fst. destruct (greach ls) as [s g]. cbn [fst snd] in *.
  destruct H as [_ O]. cbn [step]. destruct (pcs s t); auto. left. unfold release.
  assert (owners s t = 0).
  { rewrite O. destruct (Z.lt_ge_cases 0 (holds_of t g)) as [Hp|Hp]; [destruct (holds_pos_in _ _ Hp) as [w' Hw']; destruct (Hno _ Hw')|].
    unfold holds_of in *. lia. }
  unfold not_owner. rewrite H. rewrite andb_false_r. reflexivity.
Qed.

(* no deadlock: whenever somebody sleeps, the lock is held by a thread that is not sleeping and can release *)
Lemma sleeper_has_live_holder ls t w dl : pcs (reach ls) t = Waiting w dl ->
  exists t' w', In (t', w') (snd (greach ls)) /\ pcs (reach ls) t' = Idle /\
                snd (step (reach ls) (LRel w' t')) = ReleasedOk.
Proof.
  intros Hp. pose proof (inv_reach ls) as (Hown & Hw & Hk). destruct (Hw _ _ _ Hp) as [Hc _].
  pose proof (ginv_greach ls) as G. pose proof (greach_fst ls) as Ef.
  destruct (greach ls) as [s g] eqn:Eg. cbn [fst snd] in *. subst s.
  destruct G as [(w0 & F & C) O].
  assert (Hne : count (reach ls) <> 0) by (intros E; rewrite E in Hc; destruct w; cbn in Hc; discriminate).
  destruct g as [|[t' w'] g]; [cbn in C; lia|].
  exists t', w'. split; [left; reflexivity|].
  assert (Hpos : 0 < owners (reach ls) t') by (rewrite O; eapply in_holds_pos; left; reflexivity).
  assert (Hidle : pcs (reach ls) t' = Idle).
  { destruct (pcs (reach ls) t') as [|w1 d1|w1 d1] eqn:E; [reflexivity | destruct (Hw _ _ _ E); lia | specialize (Hk _ _ _ E); lia]. }
  split; [exact Hidle|]. cbn [step]. rewrite Hidle. unfold release.
  assert (E0 : w0 = w') by (inversion F as [|? ? E0 F']; cbn in E0; congruence). subst w0. cbn [length] in C.
  assert (Hheld : (match w' with Up => held_up (count (reach ls)) | Down => held_down (count (reach ls)) end) = true)
    by (unfold held_up, held_down; destruct w'; cbn in *; lia).
  rewrite Hheld. unfold not_owner. destruct (owners (reach ls) t' =? 0) eqn:E; [lia | reflexivity].
Qed.

(* timed acquire: the deadline is fixed when the call starts and never moves; once the clock has reached
   it, the thread's next test returns (it cannot go back to sleep) *)
Lemma retry_after_deadline_returns s t w d now : pcs s t = Woken w (Some d) -> d <= now ->
  pcs (fst (step s (LRetry now t))) t = Idle.
Proof.
  intros Hp Hd. cbn [step]. rewrite Hp. unfold try_acquire.
  destruct (compatible w (count s)); cbn [fst pcs]; [apply upd_same|].
  destruct (holds_other (owners s t)); cbn [fst pcs]; [apply upd_same|]. cbn [negb].
  unfold out_of_time. destruct (d - now <=? 0) eqn:E; [|lia]. cbn [fst pcs]. apply upd_same.
Qed.

Lemma timeout_fires s t w d now : pcs s t = Waiting w (Some d) -> d <= now ->
  pcs (fst (step s (LTimeout now t))) t = Woken w (Some d).
Proof. intros Hp Hd. cbn [step]. rewrite Hp. destruct (d <=? now) eqn:E; [|lia]. cbn [fst pcs]. apply upd_same. Qed.

Definition deadline_of (p : pc) : option (option Z) := match p with Idle => None | Waiting _ d | Woken _ d => Some d end.

Lemma deadline_stable s l t d : deadline_of (pcs s t) = Some d ->
  deadline_of (pcs (fst (step s l)) t) = Some d \/ pcs (fst (step s l)) t = Idle.
Proof.
  intros Hd. destruct l as [b tmo now w u | now u | now u | w u]; cbn [step].
  - destruct (pcs s u) eqn:Hu; [|left; exact Hd|left; exact Hd].
    assert (u <> t) by (intros ->; rewrite Hu in Hd; discriminate).
    unfold try_acquire. repeat match goal with |- context [if ?c then _ else _] => destruct c | |- context [match ?o with Some _ => _ | None => _ end] => destruct o end;
      cbn [fst pcs]; rewrite upd_other by congruence; left; exact Hd.
  - destruct (pcs s u) as [|w [d0|]|] eqn:Hu; try (left; exact Hd). destruct (d0 <=? now); [|left; exact Hd].
    cbn [fst pcs]. destruct (Nat.eq_dec t u) as [->|Hne]; [rewrite upd_same; rewrite Hu in Hd; left; exact Hd | rewrite upd_other by exact Hne; left; exact Hd].
  - destruct (pcs s u) as [| |w dl] eqn:Hu; try (left; exact Hd).
    destruct (Nat.eq_dec t u) as [->|Hne].
    + rewrite Hu in Hd. cbn in Hd. injection Hd as ->. unfold try_acquire.
      repeat match goal with |- context [if ?c then _ else _] => destruct c | |- context [match ?o with Some _ => _ | None => _ end] => destruct o eqn:? end;
        cbn [fst pcs]; rewrite upd_same; auto.
    + unfold try_acquire. repeat match goal with |- context [if ?c then _ else _] => destruct c | |- context [match ?o with Some _ => _ | None => _ end] => destruct o end;
        cbn [fst pcs]; rewrite upd_other by exact Hne; left; exact Hd.
  - destruct (pcs s u) eqn:Hu; try (left; exact Hd).
    unfold release. destruct (_ && _); cbn [fst]; [|left; exact Hd]. cbn [pcs].
    destruct (now_free _); [|left; exact Hd]. unfold wake_all. destruct (pcs s t); cbn in *; auto.
Qed.

(* the deadline is the clock reading at the call plus the requested timeout *)
Lemma deadline_set s b n now w t : pcs s t = Idle ->
  forall d, deadline_of (pcs (fst (step s (LAcq b (Some n) now w t))) t) = Some d -> d = Some (now + n).
Proof.
  intros Hp d. cbn [step]. rewrite Hp. unfold try_acquire.
  repeat match goal with |- context [if ?c then _ else _] => destruct c end; cbn [fst pcs]; rewrite upd_same; cbn; congruence.
Qed.

Definition ex_trace : list label :=
  [LAcq true None 0 Up 0%nat; LAcq true (Some 5) 0 Down 1%nat; LAcq true None 0 Up 2%nat; LRel Up 0%nat; LRel Up 2%nat; LRetry 1 1%nat].
Lemma example_trace : outcomes init ex_trace = [Got; Slept; Got; ReleasedOk; ReleasedOk; Got]
  /\ snd (greach ex_trace) = [(1%nat, Down)].
Proof. vm_compute. split; reflexivity. Qed.
