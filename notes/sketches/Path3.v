(* Feasibility sketch for C06_valid_iff_canonical with byte-coded strings (str := list N). *)
From Coq Require Import List NArith Bool Lia Btauto.
Import ListNotations.
Open Scope N_scope.
Local Arguments N.eqb : simpl never.

Definition str := list N.
Definition slash : N := 47.
Definition dot : N := 46.

Fixpoint str_eqb (a b : str) : bool :=
  match a, b with
  | [], [] => true
  | x :: a', y :: b' => N.eqb x y && str_eqb a' b'
  | _, _ => false
  end.
Fixpoint prefixb (p s : str) : bool :=
  match p, s with
  | [], _ => true
  | x :: p', y :: s' => N.eqb x y && prefixb p' s'
  | _ :: _, [] => false
  end.
Fixpoint infixb (p s : str) : bool :=
  prefixb p s || match s with [] => false | _ :: s' => infixb p s' end.
Fixpoint suffixb (p s : str) : bool :=
  str_eqb s p || match s with [] => false | _ :: s' => suffixb p s' end.

(* as emitted by the translator (argument order: pattern first) *)
Definition invalid_import_path (name : str) : bool :=
  (str_eqb name [])
  || ((str_eqb name [46]) || (str_eqb name [46; 46]))
  || ((prefixb [47] name) || (prefixb [46; 47] name) || (prefixb [46; 46; 47] name))
  || ((suffixb [47] name) || (suffixb [47; 46] name) || (suffixb [47; 46; 46] name))
  || (infixb [47; 47] name)
  || (infixb [47; 46; 47] name)
  || (infixb [47; 46; 46; 47] name).

(* character classes *)
Inductive cls := CSlash | CDot | COther.
Definition classify (c : N) : cls := if N.eqb c 47 then CSlash else if N.eqb c 46 then CDot else COther.

Lemma eqb47 c : N.eqb 47 c = match classify c with CSlash => true | _ => false end.
Proof. unfold classify. rewrite (N.eqb_sym 47 c). destruct (N.eqb c 47); [reflexivity|]. destruct (N.eqb c 46); reflexivity. Qed.
Lemma eqbc47 c : N.eqb c 47 = match classify c with CSlash => true | _ => false end.
Proof. rewrite N.eqb_sym. apply eqb47. Qed.
Lemma eqb46 c : N.eqb 46 c = match classify c with CDot => true | _ => false end.
Proof.
  unfold classify. rewrite (N.eqb_sym 46 c). destruct (N.eqb_spec c 47) as [->|]; [reflexivity|].
  destruct (N.eqb c 46); reflexivity.
Qed.
Lemma eqbc46 c : N.eqb c 46 = match classify c with CDot => true | _ => false end.
Proof. rewrite N.eqb_sym. apply eqb46. Qed.

(* reference: 4-state scanner; true = some component is "", "." or ".." (or the string is empty) *)
Inductive st := SC | D1 | D2 | IN.
Fixpoint scan (q : st) (s : str) : bool :=
  match s with
  | [] => match q with IN => false | _ => true end
  | c :: s' =>
      match classify c with
      | CSlash => match q with IN => scan SC s' | _ => true end
      | CDot => match q with SC => scan D1 s' | D1 => scan D2 s' | D2 => scan IN s' | IN => scan IN s' end
      | COther => scan IN s'
      end
  end.

Definition start_bad (s : str) : bool :=
  str_eqb s [] || (str_eqb s [46] || str_eqb s [46;46]) || (prefixb [47] s || prefixb [46;47] s || prefixb [46;46;47] s).
Definition tail_bad (s : str) : bool :=
  (suffixb [47] s || suffixb [47;46] s || suffixb [47;46;46] s) || infixb [47;47] s || infixb [47;46;47] s || infixb [47;46;46;47] s.
Definition d1_bad (s : str) := str_eqb s [] || prefixb [47] s || str_eqb s [46] || prefixb [46;47] s.
Definition d2_bad (s : str) := str_eqb s [] || prefixb [47] s.

Ltac norm := cbn [str_eqb prefixb infixb suffixb]; rewrite ?eqb47, ?eqb46, ?eqbc47, ?eqbc46.
Ltac cases_on s :=
  let c := fresh "c" in destruct s as [|c s]; norm; [| destruct (classify c) eqn:?; cbn [andb orb]].
Ltac fin := cbn [andb orb]; rewrite ?orb_true_r, ?orb_false_r, ?andb_false_r, ?andb_true_r; try reflexivity; try btauto.

Lemma tail_bad_cons c s :
  tail_bad (c :: s) = (match classify c with CSlash => start_bad s | _ => false end) || tail_bad s.
Proof.
  unfold tail_bad, start_bad. norm.
  destruct (classify c) eqn:Hc; fin.
Qed.

Lemma scan_spec s :
  scan IN s = tail_bad s /\
  scan SC s = start_bad s || tail_bad s /\
  scan D1 s = d1_bad s || tail_bad s /\
  scan D2 s = d2_bad s || tail_bad s.
Proof.
  induction s as [|c s (HIN & HSC & HD1 & HD2)].
  - cbn. repeat split; reflexivity.
  - rewrite tail_bad_cons. cbn [scan]. unfold start_bad, d1_bad, d2_bad in *. norm.
    destruct (classify c) eqn:Hc; cbn [andb orb];
      rewrite ?HIN, ?HSC, ?HD1, ?HD2; repeat split; fin.
    all: do 3 (try (cases_on s; fin)).
Qed.

Theorem invalid_is_scan s : invalid_import_path s = scan SC s.
Proof.
  destruct (scan_spec s) as (_ & -> & _). unfold invalid_import_path, start_bad, tail_bad. fin.
Qed.

(* components *)
Fixpoint split_aux (cur : str) (s : str) : list str :=
  match s with
  | [] => [rev cur]
  | c :: s' => match classify c with CSlash => rev cur :: split_aux [] s' | _ => split_aux (c :: cur) s' end
  end.
Definition split (s : str) := split_aux [] s.
Definition bad_comp (c : str) : bool := str_eqb c [] || str_eqb c [46] || str_eqb c [46; 46].
Definition canonical (s : str) : bool := negb (existsb bad_comp (split s)).


Definition st_of (cur : str) : st :=
  match cur with
  | [] => SC
  | [a] => match classify a with CDot => D1 | _ => IN end
  | [a; b] => match classify a, classify b with CDot, CDot => D2 | _, _ => IN end
  | _ => IN
  end.

Lemma str_eqb_refl_iff a b : str_eqb a b = true <-> a = b.
Proof.
  revert b; induction a as [|x a IH]; destruct b as [|y b]; cbn; try (split; congruence).
  rewrite andb_true_iff, N.eqb_eq, IH. split; [intros [-> ->]; reflexivity | intros H; injection H; auto].
Qed.

Lemma classify_dot a : classify a = CDot <-> a = 46.
Proof.
  unfold classify. destruct (N.eqb_spec a 47) as [->|]; [split; [discriminate | discriminate]|].
  destruct (N.eqb_spec a 46); split; congruence.
Qed.

Lemma bad_comp_rev cur : bad_comp (rev cur) = match st_of cur with IN => false | _ => true end.
Proof.
  unfold bad_comp.
  destruct cur as [|a [|b [|c cur]]]; cbn [rev app st_of]; norm.
  - reflexivity.
  - destruct (classify a); reflexivity.
  - destruct (classify b) eqn:Hb, (classify a) eqn:Ha; reflexivity.
  - (* length >= 3: never equal to a string of length <= 2 *)
    assert (H : forall t : str, (length t <= 2)%nat -> str_eqb (((rev cur ++ [c]) ++ [b]) ++ [a]) t = false).
    { intros t Ht. destruct (str_eqb _ t) eqn:E; [|reflexivity].
      apply str_eqb_refl_iff in E. subst t. rewrite !app_length in Ht. cbn in Ht. lia. }
    rewrite !H by (cbn; lia). reflexivity.
Qed.

Lemma split_scan cur s :
  (forall x, In x cur -> classify x <> CSlash) ->
  existsb bad_comp (split_aux cur s) = scan (st_of cur) s.
Proof.
  revert cur; induction s as [|c s IH]; intros cur Hcur.
  - cbn [split_aux existsb scan]. rewrite bad_comp_rev, orb_false_r. destruct (st_of cur); reflexivity.
  - cbn [split_aux scan]. destruct (classify c) eqn:Hc.
    + cbn [existsb]. rewrite bad_comp_rev, (IH []) by (intros ? []).
      cbn [st_of]. destruct (st_of cur); reflexivity.
    + rewrite IH by (intros x [<-|Hx]; [congruence | auto]).
      destruct cur as [|a [|b [|d cur]]]; cbn [st_of]; rewrite ?Hc; try reflexivity.
      all: try (destruct (classify a); reflexivity).
      all: try (destruct (classify a), (classify b); reflexivity).
    + rewrite IH by (intros x [<-|Hx]; [congruence | auto]).
      destruct cur as [|a [|b [|d cur]]]; cbn [st_of]; rewrite ?Hc; try reflexivity.
      all: try (destruct (classify a); reflexivity).
      all: try (destruct (classify a), (classify b); reflexivity).
Qed.

Theorem C06_valid_iff_canonical s : invalid_import_path s = negb (canonical s).
Proof.
  unfold canonical, split. rewrite negb_involutive, invalid_is_scan, split_scan by (intros ? []). reflexivity.
Qed.
Print Assumptions C06_valid_iff_canonical.
