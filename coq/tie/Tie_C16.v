From Coq Require Import List NArith ZArith Bool.
From Alp Require Import Base.Str Base.Types Model.PostAdd.
From Run Require Gen_postadd.
Lemma tie_lacks_healthy st : Gen_postadd.g_lacks_healthy st = lacks_healthy st.
Proof. destruct st; reflexivity. Qed.
Lemma tie_skip_self_loop b : Gen_postadd.g_skip_self_loop b = b.
Proof. reflexivity. Qed.
Lemma tie_y s : Gen_postadd.g_state_is_y s = has_eqb s HY. Proof. destruct s; reflexivity. Qed.
Lemma tie_m s : Gen_postadd.g_state_is_m s = has_eqb s HM. Proof. destruct s; reflexivity. Qed.
Lemma tie_x s st : Gen_postadd.g_state_is_x s st = has_eqb s HX && has_eqb st HN. Proof. destruct s, st; reflexivity. Qed.
